package jgen

import (
	"bytes"
	"encoding/base64"
	stdjson "encoding/json"
	"fmt"
	"reflect"
	"strconv"
	"strings"

	"pgregory.net/rapid"
)

// ------------------------------------------------------------------ grammar-based documents

var wsPool = []string{"", "", "", " ", "\n", "\t", "\r", "  ", " \n\t"}

func ws(rt *rapid.T) string { return rapid.SampledFrom(wsPool).Draw(rt, "ws") }

var numPool = []string{"0", "-0", "1", "-1", "12", "1.5", "-1.5", "0.1", "1e5", "1E5", "1e+5", "1e-5", "1.25e2", "123456789", "9223372036854775807", "9223372036854775808", "-9223372036854775808",
	"-9223372036854775809", "18446744073709551615", "18446744073709551616", "127", "128", "-128", "-129", "255", "256", "32767", "32768", "65535", "65536", "2147483647", "2147483648", "-2147483648",
	"-2147483649", "4294967295", "4294967296", "1e400", "-1e400", "1e-400", "0.0", "1.0", "100", "1e2", "1.5e1", "3.4028235e38", "3.5e38", "1e39", "0.000001", "1e21", "123456789012345678901234567890", "2.5", "1e0", "0e0", "0E-1"}

var escPool = []string{`\"`, `\\`, `\/`, `\b`, `\f`, `\n`, `\r`, `\t`, `\u0041`, `\u00e9`, `\u4e16`, `\ud83d\ude00`, `\uD83D\uDE00`, `\ud83d`, `\ude00`, `\ud83dx`, `\ud83d\u0041`, `\ude00\ud83d`, `\u0000`, `\u001f`, `\u2028`, `\u2029`, `\u003c`, `\uffff`, `\ufffd`, `\u0022`, `\u005c`,
	// code points at the edges of the 1-, 2- and 3-byte UTF-8 encodings and of the surrogate block
	`\u007f`, `\u0080`, `\u00ff`, `\u07ff`, `\u0800`, `\ud7ff`, `\ue000`, `\ufffe`, `\u0001`, `\u0020`, `\udbff\udfff`, `\ud800\udc00`}

var plainPool = []string{"a", "b", "Z", "0", " ", "/", "<", ">", "&", "\u00e9", "\u4e16", "\U0001F600", "\u2028", "\u2029", "\x7f", "'", "abcdefgh", "0123456789abcdef", "\u00ff", "key", "null", "\xff", "\xc3", "\xed\xa0\x80", "\ufffd"}

// GenStringLit draws a JSON string literal (valid JSON syntax; content may
// contain invalid UTF-8, which both decoders replace).
func GenStringLit(rt *rapid.T) string {
	var sb strings.Builder
	sb.WriteByte('"')
	n := rapid.IntRange(0, 6).Draw(rt, "nsp")
	if rapid.IntRange(0, 14).Draw(rt, "longstr") == 0 {
		// long plain run with one escape at a chosen offset (word-at-a-time scans)
		run := rapid.IntRange(1, 80).Draw(rt, "run")
		pos := rapid.IntRange(0, run).Draw(rt, "pos")
		sb.WriteString(strings.Repeat("x", pos))
		sb.WriteString(rapid.SampledFrom(escPool).Draw(rt, "esc"))
		sb.WriteString(strings.Repeat("y", run-pos))
	}
	for i := 0; i < n; i++ {
		if rapid.IntRange(0, 2).Draw(rt, "isesc") == 0 {
			sb.WriteString(rapid.SampledFrom(escPool).Draw(rt, "esc"))
		} else {
			sb.WriteString(rapid.SampledFrom(plainPool).Draw(rt, "plain"))
		}
	}
	sb.WriteByte('"')
	return sb.String()
}

// GenDocument draws a syntactically valid JSON document of bounded depth.
func GenDocument(rt *rapid.T, depth int) []byte {
	var sb strings.Builder
	sb.WriteString(ws(rt))
	genDoc(rt, &sb, depth)
	sb.WriteString(ws(rt))
	return []byte(sb.String())
}

func genDoc(rt *rapid.T, sb *strings.Builder, depth int) {
	k := rapid.IntRange(0, 9).Draw(rt, "dk")
	if depth <= 0 && k >= 6 {
		k = k % 6
	}
	switch k {
	case 0:
		sb.WriteString(rapid.SampledFrom([]string{"null", "true", "false"}).Draw(rt, "lit"))
	case 1, 2:
		if rapid.IntRange(0, 7).Draw(rt, "numlong") == 0 {
			sb.WriteString(LongIntLit(rt))
		} else {
			sb.WriteString(rapid.SampledFrom(numPool).Draw(rt, "num"))
		}
	case 3, 4, 5:
		sb.WriteString(GenStringLit(rt))
	case 6, 7:
		sb.WriteByte('[')
		sb.WriteString(ws(rt))
		n := rapid.IntRange(0, 4).Draw(rt, "alen")
		for i := 0; i < n; i++ {
			if i > 0 {
				sb.WriteString(ws(rt) + "," + ws(rt))
			}
			genDoc(rt, sb, depth-1)
		}
		sb.WriteString(ws(rt))
		sb.WriteByte(']')
	default:
		sb.WriteByte('{')
		sb.WriteString(ws(rt))
		n := rapid.IntRange(0, 4).Draw(rt, "olen")
		for i := 0; i < n; i++ {
			if i > 0 {
				sb.WriteString(ws(rt) + "," + ws(rt))
			}
			if rapid.IntRange(0, 3).Draw(rt, "simplekey") > 0 {
				sb.WriteString(strconv.Quote(rapid.SampledFrom([]string{"a", "b", "A", "x", "k", "", "a b"}).Draw(rt, "okey")))
			} else {
				sb.WriteString(GenStringLit(rt))
			}
			sb.WriteString(ws(rt) + ":" + ws(rt))
			genDoc(rt, sb, depth-1)
		}
		sb.WriteString(ws(rt))
		sb.WriteByte('}')
	}
}

// ------------------------------------------------------------------ type-directed documents

// JSONNames lists the JSON object keys a struct type responds to (own fields
// and promoted embedded ones), as the tag/name rules define them. Only used to
// aim the document generator; the oracle is the standard library.
func JSONNames(t reflect.Type, depth int) []string {
	var out []string
	if depth > 3 {
		return out
	}
	for i := 0; i < t.NumField(); i++ {
		f := t.Field(i)
		name := f.Name
		tag := f.Tag.Get("json")
		if tag == "-" {
			continue
		}
		tn := strings.Split(tag, ",")[0]
		if tn != "" {
			name = tn
		}
		if f.Anonymous && tn == "" {
			ft := f.Type
			if ft.Kind() == reflect.Ptr {
				ft = ft.Elem()
			}
			if ft.Kind() == reflect.Struct {
				out = append(out, JSONNames(ft, depth+1)...)
				continue
			}
		}
		out = append(out, name)
	}
	return out
}

func fieldByJSONName(t reflect.Type, name string, depth int) (reflect.StructField, bool) {
	if depth > 3 {
		return reflect.StructField{}, false
	}
	for i := 0; i < t.NumField(); i++ {
		f := t.Field(i)
		tag := f.Tag.Get("json")
		tn := strings.Split(tag, ",")[0]
		n := f.Name
		if tn != "" {
			n = tn
		}
		if f.Anonymous && tn == "" {
			ft := f.Type
			if ft.Kind() == reflect.Ptr {
				ft = ft.Elem()
			}
			if ft.Kind() == reflect.Struct {
				if sf, ok := fieldByJSONName(ft, name, depth+1); ok {
					return sf, true
				}
				continue
			}
		}
		if n == name {
			return f, true
		}
	}
	return reflect.StructField{}, false
}

var foldMap = map[rune][]string{'k': {"K", "\u212a"}, 'K': {"k", "\u212a"}, 's': {"S", "\u017f"}, 'S': {"s", "\u017f"}, '\u212a': {"k", "K"}, '\u017f': {"s", "S"}}

func perturbKey(rt *rapid.T, name string, o DocOpts) string {
	k := rapid.IntRange(0, 11).Draw(rt, "keypert")
	if k == 2 && o.avoid("unifold") {
		k = 0
	}
	switch k {
	case 0:
		return strings.ToUpper(name)
	case 1:
		return strings.ToLower(name)
	case 2:
		// unicode fold of one rune
		rs := []rune(name)
		for i, r := range rs {
			if alts, ok := foldMap[r]; ok {
				return string(rs[:i]) + rapid.SampledFrom(alts).Draw(rt, "fold") + string(rs[i+1:])
			}
		}
		return strings.Title(name)
	case 3:
		return name + "x"
	case 4:
		return rapid.SampledFrom([]string{"unknown", "", "zz", "-", "A", "a", "x", "X", "y", "Y"}).Draw(rt, "otherkey")
	case 6:
		// the name followed by NUL bytes (a lookup that compares zero-padded words must not match it)
		return name + strings.Repeat("\x00", rapid.IntRange(1, 3).Draw(rt, "nuls"))
	case 5:
		// a proper prefix of the name (word-at-a-time key comparison must not match it)
		if len(name) > 1 && name[len(name)-1] < 0x80 {
			return name[:len(name)-1]
		}
		return name
	default:
		return name
	}
}

func quoteKey(rt *rapid.T, k string) string {
	if rapid.IntRange(0, 9).Draw(rt, "esckey") == 0 && len(k) > 0 {
		// write the first byte as a \u escape
		r := []rune(k)
		if r[0] < 0x10000 && r[0] != 0xFFFD {
			return fmt.Sprintf("\"\\u%04x%s", r[0], strconv.Quote(string(r[1:]))[1:])
		}
	}
	for i := 0; i < len(k); i++ {
		if k[i] < 0x20 || k[i] == 0x7f {
			q, _ := stdjson.Marshal(k) // strconv.Quote would write \x00, which is not a JSON escape
			return string(q)
		}
	}
	return strconv.Quote(k)
}

// DocOpts steers GenDocFor.
type DocOpts struct {
	Depth int
	// Wrong is the per-node probability (in 1/20) of emitting a value of a
	// different JSON kind than the target expects (default 2).
	Wrong int
	Avoid map[string]bool
}

func (o DocOpts) avoid(f string) bool { return o.Avoid != nil && o.Avoid[f] }

// GenDocFor draws a syntactically valid document aimed at type t: mostly
// fitting, with boundary literals, nulls, wrong kinds, unknown and perturbed keys.
func GenDocFor(rt *rapid.T, t reflect.Type, o DocOpts) []byte {
	if o.Wrong == 0 {
		o.Wrong = 2
	}
	var sb strings.Builder
	sb.WriteString(ws(rt))
	genDocFor(rt, &sb, t, o, 0)
	sb.WriteString(ws(rt))
	return []byte(sb.String())
}

func intLit(rt *rapid.T, bits int, signed bool) string {
	k := rapid.IntRange(0, 9).Draw(rt, "ilk")
	switch {
	case k <= 2:
		return strconv.Itoa(rapid.IntRange(-3, 130).Draw(rt, "small"))
	case k <= 6:
		// width boundaries ±1
		var b []string
		if signed {
			hi := uint64(1)<<(bits-1) - 1
			b = []string{strconv.FormatUint(hi, 10), strconv.FormatUint(hi+1, 10), "-" + strconv.FormatUint(hi+1, 10), "-" + strconv.FormatUint(hi+2, 10), strconv.FormatUint(hi-1, 10)}
		} else {
			hi := ^uint64(0) >> (64 - bits)
			b = []string{strconv.FormatUint(hi, 10), "-1", "-0", "0", strconv.FormatUint(hi-1, 10)}
			if bits < 64 {
				b = append(b, strconv.FormatUint(hi+1, 10))
			} else {
				b = append(b, "18446744073709551616")
			}
		}
		return rapid.SampledFrom(b).Draw(rt, "bound")
	case k == 7:
		return rapid.SampledFrom([]string{"1.0", "1e2", "1.5", "1E0", "-1e1", "0.0", "1e-1", "10e-1", "1e19", "1e20"}).Draw(rt, "floatint")
	case k == 8 && rapid.Bool().Draw(rt, "leadzero"):
		// forms that are not JSON numbers but that strconv accepts (quoted ",string" values, map keys)
		return rapid.SampledFrom([]string{"00", "01", "-01", "007", "-007", "+1", "0042", "000", "-00", "+0", "0127", "00000000000000000001"}).Draw(rt, "leadzero-lit")
	case k == 8 && rapid.Bool().Draw(rt, "longint"):
		return LongIntLit(rt)
	case k == 8:
		return rapid.SampledFrom([]string{"123456789012345678901234567890", "-123456789012345678901234567890", "99999999999999999999", "00", "01", "-01", "+1", "0x1", "1_0", "92233720368547758070", "92233720368547758080", "9223372036854775810", "-92233720368547758090", "-9223372036854775810", "18446744073709551620", "184467440737095516150", "184467440737095516160", "28446744073709551616"}).Draw(rt, "bigint")
	default:
		return strconv.FormatInt(rapid.Int64().Draw(rt, "anyint"), 10)
	}
}

// LongIntLit composes an integer literal of 17..23 digits (mostly 19..21: around the limits of int64 and
// uint64, and every 20-digit value above 2^64, not just the few next to it), sometimes negative.
func LongIntLit(rt *rapid.T) string {
	n := rapid.SampledFrom([]int{17, 18, 19, 19, 19, 20, 20, 20, 20, 20, 21, 21, 22, 23}).Draw(rt, "ndigits")
	var sb strings.Builder
	if rapid.IntRange(0, 3).Draw(rt, "lneg") == 0 {
		sb.WriteByte('-')
	}
	sb.WriteByte(byte('1' + rapid.IntRange(0, 8).Draw(rt, "d0")))
	rest := rapid.Uint64().Draw(rt, "ldigits")
	carry := rapid.Uint64().Draw(rt, "ldigits2")
	for i := 1; i < n; i++ {
		if i == 12 {
			rest = carry
		}
		sb.WriteByte(byte('0' + rest%10))
		rest /= 10
	}
	return sb.String()
}

// floatLit composes a number literal: every digit count of the integer part and of the fraction around the
// precision limits of float32 / float64 / uint64, exponents around the range limits, and the malformed forms.
func floatLit(rt *rapid.T) string {
	var sb strings.Builder
	if rapid.IntRange(0, 2).Draw(rt, "neg") == 0 {
		sb.WriteByte('-')
	}
	digits := "98765432101234567890123456789012345678901234567890"
	switch rapid.IntRange(0, 5).Draw(rt, "ipart") {
	case 0:
		sb.WriteByte('0')
	case 1:
		sb.WriteString(rapid.SampledFrom([]string{"1", "9", "16777216", "16777217", "9007199254740992", "9007199254740993", "18446744073709551615", "18446744073709551616", "179769313486231570", "340282346638528859811704183484516925440", "340282346638528859811704183484516925441"}).Draw(rt, "iknown"))
	case 2:
		sb.WriteString("00"[:rapid.IntRange(1, 2).Draw(rt, "lz")] + "7") // leading zero: not a JSON number
	default:
		sb.WriteString(digits[:rapid.IntRange(1, 40).Draw(rt, "ilen")])
	}
	switch rapid.IntRange(0, 4).Draw(rt, "fpart") {
	case 0, 1:
	case 2:
		sb.WriteString("." + digits[10:10+rapid.IntRange(1, 30).Draw(rt, "flen")])
	case 3:
		sb.WriteString("." + strings.Repeat("0", rapid.IntRange(1, 330).Draw(rt, "fz")) + "1")
	default:
		sb.WriteString(rapid.SampledFrom([]string{".", ".e1", ".5", ".0", ".00000000000000000000000000000000000000000000000000"}).Draw(rt, "fodd"))
	}
	if rapid.IntRange(0, 2).Draw(rt, "hasexp") == 0 {
		sb.WriteString(rapid.SampledFrom([]string{"e", "E"}).Draw(rt, "e"))
		sb.WriteString(rapid.SampledFrom([]string{"", "+", "-", "-", ""}).Draw(rt, "esign"))
		sb.WriteString(rapid.SampledFrom([]string{"0", "1", "2", "15", "16", "22", "23", "37", "38", "39", "44", "45", "46", "307", "308", "309", "323", "324", "325", "400", "00", "007", "", "1.5", "99999999999"}).Draw(rt, "exp"))
	}
	return sb.String()
}

// b64Lit composes a quoted base64 text for []byte targets: random content of every length 0..40 in the
// standard alphabet, with the variations encoding/json's decoder accepts (line breaks inside) or rejects
// (missing / extra padding, URL alphabet, spaces, foreign bytes), some characters written as \u escapes.
func b64Lit(rt *rapid.T) string {
	raw := rapid.SliceOfN(rapid.Byte(), 0, 40).Draw(rt, "b64raw")
	enc := base64.StdEncoding.EncodeToString(raw)
	pos := func() int { return rapid.IntRange(0, len(enc)).Draw(rt, "b64pos") }
	switch rapid.IntRange(0, 11).Draw(rt, "b64var") {
	case 0:
		enc = base64.RawStdEncoding.EncodeToString(raw)
	case 1:
		enc = base64.URLEncoding.EncodeToString(raw)
	case 2:
		p := pos()
		enc = enc[:p] + "\n" + enc[p:]
	case 3:
		p := pos()
		enc = enc[:p] + "\r\n" + enc[p:]
	case 4:
		p := pos()
		enc = enc[:p] + " " + enc[p:]
	case 5:
		enc += "="
	case 6:
		if len(enc) > 0 {
			enc = enc[:len(enc)-1]
		}
	case 7:
		p := pos()
		enc = enc[:p] + rapid.SampledFrom([]string{"!", "\x00", "\u00e9", "-", "_", "=", "\t"}).Draw(rt, "b64bad") + enc[p:]
	}
	q, _ := stdjson.Marshal(enc)
	if len(enc) > 0 && rapid.IntRange(0, 3).Draw(rt, "b64esc") == 0 {
		// one character as a \u escape (the text is unescaped before it is base64-decoded)
		p := rapid.IntRange(0, len(enc)-1).Draw(rt, "b64escpos")
		if enc[p] >= 0x20 && enc[p] < 0x7f && enc[p] != '"' && enc[p] != '\\' {
			q1, _ := stdjson.Marshal(enc[:p])
			q2, _ := stdjson.Marshal(enc[p+1:])
			return string(q1[:len(q1)-1]) + fmt.Sprintf("\\u%04x", enc[p]) + string(q2[1:])
		}
	}
	return string(q)
}

func wrongValue(rt *rapid.T, sb *strings.Builder) {
	sb.WriteString(rapid.SampledFrom([]string{"null", "true", "0", "1.5", `"s"`, `""`, "[]", "{}", "[1]", `{"a":1}`, `"1"`, `"true"`, `"null"`, "-1", `[null]`, `[[]]`, `{"A":{}}`}).Draw(rt, "wrong"))
}

func genDocFor(rt *rapid.T, sb *strings.Builder, t reflect.Type, o DocOpts, depth int) {
	if depth > 12 {
		sb.WriteString("null")
		return
	}
	r := rapid.IntRange(0, 19).Draw(rt, "node")
	if r < o.Wrong {
		wrongValue(rt, sb)
		return
	}
	if r == 19 {
		sb.WriteString("null")
		return
	}
	switch t {
	case numberType:
		if rapid.IntRange(0, 5).Draw(rt, "qnum") == 0 {
			sb.WriteString(strconv.Quote(rapid.SampledFrom(numPool).Draw(rt, "num")))
			return
		}
		sb.WriteString(rapid.SampledFrom(numPool).Draw(rt, "num"))
		return
	case rawType:
		genDoc(rt, sb, 2)
		return
	case scalarTypes["time"]:
		if rapid.Bool().Draw(rt, "gentime") {
			// composed timestamp: every fraction length 0..12, every zone form, separators and a possible byte slip
			ts := rapid.SampledFrom([]string{"2018-01-01", "2021-03-25", "0000-01-01", "9999-12-31", "2000-02-29"}).Draw(rt, "date") +
				rapid.SampledFrom([]string{"T", "T", "T", "t", " "}).Draw(rt, "tsep") + rapid.SampledFrom([]string{"23:42:59", "00:00:00", "12:30:60", "24:00:00"}).Draw(rt, "clock")
			if n := rapid.IntRange(0, 12).Draw(rt, "nfrac"); n > 0 {
				ts += "." + "12345678901234"[:n]
			}
			ts += rapid.SampledFrom([]string{"Z", "Z", "Z", "z", "", "+07:00", "-00:30", "+0700", "+24:00", "+07", " +07:00"}).Draw(rt, "zone")
			if rapid.IntRange(0, 5).Draw(rt, "tslip") == 0 && len(ts) > 0 {
				b := []byte(ts)
				b[rapid.IntRange(0, len(b)-1).Draw(rt, "slippos")] = rapid.SampledFrom([]byte("0:9-.TZ+ x\x80")).Draw(rt, "slipbyte")
				ts = string(b)
			}
			q, _ := stdjson.Marshal(ts)
			sb.Write(q)
			return
		}
		sb.WriteString(strconv.Quote(rapid.SampledFrom([]string{"2021-03-25T21:36:12Z", "2021-03-25T21:36:12.123456789Z", "2021-03-25T21:36:12+07:00", "2021-03-25T21:36:12.5-00:30", "0001-01-01T00:00:00Z", "9999-12-31T23:59:59.999999999Z",
			"2021-03-25", "2021-02-30T00:00:00Z", "2021-03-25T21:36:12", "2021-03-25 21:36:12Z", "", "2021-03-25T21:36:12.Z", "2021-03-25T24:00:00Z", "2000-02-29T12:00:00Z", "1900-02-29T12:00:00Z", "2021-03-25t21:36:12z"}).Draw(rt, "time")))
		return
	case scalarTypes["duration"]:
		sb.WriteString(rapid.SampledFrom([]string{"0", "1", "-5", "1000000000", `"1s"`, `"1h2m3.5s"`, `"-1.5ms"`, `"bad"`, `""`, "1.5", "9223372036854775807"}).Draw(rt, "dur"))
		return
	}
	// types with text/json unmarshalers get scalar-ish inputs
	switch t.Name() {
	case "UJ", "UBoth":
		genDoc(rt, sb, 1)
		return
	case "UT":
		if rapid.IntRange(0, 4).Draw(rt, "utwrong") == 0 {
			wrongValue(rt, sb)
		} else {
			sb.WriteString(GenStringLit(rt))
		}
		return
	case "MU":
		sb.WriteString(rapid.SampledFrom([]string{`"mu1"`, `"mu-42"`, `"mu"`, `"x"`, `1`, `"mu12345678901234567890"`}).Draw(rt, "mu"))
		return
	case "KText":
		sb.WriteString(rapid.SampledFrom([]string{`"1/2"`, `"-128/127"`, `"1"`, `"a/b"`, `"200/1"`, `5`}).Draw(rt, "ktext"))
		return
	case "ByteUV":
		sb.WriteString(rapid.SampledFrom([]string{`1`, `255`, `"ERR"`, `"x"`, `[1]`, `null`, `0`}).Draw(rt, "byteuv"))
		return
	case "ByteUP":
		sb.WriteString(rapid.SampledFrom([]string{`5`, `"b7"`, `300`, `"ERR"`, `0`, `254`, `null`, `"12"`}).Draw(rt, "byteup"))
		return
	case "ByteUT":
		sb.WriteString(rapid.SampledFrom([]string{`"t5"`, `"7"`, `5`, `"x"`, `"t253"`, `null`, `"t300"`, `""`}).Draw(rt, "byteut"))
		return
	}
	switch t.Kind() {
	case reflect.Bool:
		sb.WriteString(rapid.SampledFrom([]string{"true", "false", "true", "false", "1", `"true"`}).Draw(rt, "bool"))
	case reflect.Int, reflect.Int64:
		sb.WriteString(intLit(rt, 64, true))
	case reflect.Int8:
		sb.WriteString(intLit(rt, 8, true))
	case reflect.Int16:
		sb.WriteString(intLit(rt, 16, true))
	case reflect.Int32:
		sb.WriteString(intLit(rt, 32, true))
	case reflect.Uint, reflect.Uint64, reflect.Uintptr:
		sb.WriteString(intLit(rt, 64, false))
	case reflect.Uint8:
		sb.WriteString(intLit(rt, 8, false))
	case reflect.Uint16:
		sb.WriteString(intLit(rt, 16, false))
	case reflect.Uint32:
		sb.WriteString(intLit(rt, 32, false))
	case reflect.Float32, reflect.Float64:
		if rapid.Bool().Draw(rt, "genfloat") {
			sb.WriteString(floatLit(rt))
			return
		}
		sb.WriteString(rapid.SampledFrom(numPool).Draw(rt, "num"))
	case reflect.String:
		sb.WriteString(GenStringLit(rt))
	case reflect.Interface:
		genDoc(rt, sb, 2)
	case reflect.Ptr:
		genDocFor(rt, sb, t.Elem(), o, depth+1)
	case reflect.Slice:
		if t.Elem().Kind() == reflect.Uint8 && (t.Elem().PkgPath() == "" || rapid.IntRange(0, 2).Draw(rt, "namedb64") == 0) {
			if rapid.Bool().Draw(rt, "genb64") {
				sb.WriteString(b64Lit(rt))
				return
			}
			sb.WriteString(strconv.Quote(rapid.SampledFrom([]string{"", "AA==", "AAE=", "AAEC", "aGVsbG8gd29ybGQ=", "AA", "A", "AA=", "====", "aGVsbG8gd29ybGQ", "a b=", "AAEC\n", "////", "+/+/", "-_-_", "QUJD\\n"}).Draw(rt, "b64")))
			return
		}
		fallthrough
	case reflect.Array:
		sb.WriteByte('[')
		sb.WriteString(ws(rt))
		n := rapid.IntRange(0, 4).Draw(rt, "n")
		if t.Kind() == reflect.Array && rapid.IntRange(0, 2).Draw(rt, "fit") == 0 {
			n = t.Len()
		}
		for i := 0; i < n; i++ {
			if i > 0 {
				sb.WriteString(ws(rt) + "," + ws(rt))
			}
			genDocFor(rt, sb, t.Elem(), o, depth+1)
		}
		sb.WriteString(ws(rt))
		sb.WriteByte(']')
	case reflect.Map:
		sb.WriteByte('{')
		sb.WriteString(ws(rt))
		n := rapid.IntRange(0, 4).Draw(rt, "n")
		for i := 0; i < n; i++ {
			if i > 0 {
				sb.WriteString(ws(rt) + "," + ws(rt))
			}
			var key string
			switch t.Key().Kind() {
			case reflect.String:
				key = rapid.SampledFrom([]string{"a", "b", "A", "k1", "", "a", "é", "<", "z"}).Draw(rt, "mkey")
			case reflect.Struct: // KText
				key = rapid.SampledFrom([]string{"1/2", "3/4", "1/2", "bad", "-1/0"}).Draw(rt, "tkey")
			default:
				key = rapid.SampledFrom([]string{"1", "2", "-1", "0", "255", "256", "127", "128", "1", "x", "", "1.0", "+1", "01", " 1", "4294967296", "-129"}).Draw(rt, "ikey")
			}
			sb.WriteString(quoteKey(rt, key))
			sb.WriteString(ws(rt) + ":" + ws(rt))
			genDocFor(rt, sb, t.Elem(), o, depth+1)
		}
		sb.WriteString(ws(rt))
		sb.WriteByte('}')
	case reflect.Struct:
		names := JSONNames(t, 0)
		sb.WriteByte('{')
		sb.WriteString(ws(rt))
		n := rapid.IntRange(0, len(names)+1).Draw(rt, "nf")
		if n > 8 && rapid.IntRange(0, 3).Draw(rt, "cap") > 0 {
			n = rapid.IntRange(0, 8).Draw(rt, "ncap")
		}
		for i := 0; i < n; i++ {
			if i > 0 {
				sb.WriteString(ws(rt) + "," + ws(rt))
			}
			var ft reflect.Type
			key := "unknown"
			if len(names) > 0 {
				name := rapid.SampledFrom(names).Draw(rt, "fname")
				if f, ok := fieldByJSONName(t, name, 0); ok {
					ft = f.Type
					if strings.Contains(f.Tag.Get("json"), ",string") {
						// quoted form for ,string fields (and sometimes not)
						key = perturbKey(rt, name, o)
						sb.WriteString(quoteKey(rt, key))
						sb.WriteString(ws(rt) + ":" + ws(rt))
						var inner strings.Builder
						genDocFor(rt, &inner, ft, o, depth+1)
						switch rapid.IntRange(0, 5).Draw(rt, "strform") {
						case 0:
							sb.WriteString(inner.String())
						case 1:
							sb.WriteString(strconv.Quote(" " + inner.String()))
						case 2:
							sb.WriteString(strconv.Quote(inner.String() + " "))
						case 4:
							// the quoted text is itself checked as JSON: a raw control byte, a raw line break or an
							// invalid escape placed *inside* it (properly escaped at the outer level)
							in := inner.String()
							pos := rapid.IntRange(0, len(in)).Draw(rt, "innerpos")
							bad := rapid.SampledFrom([]string{"\t", "\n", "\x01", "\\x", "\x7f", "\"", "\\u00zz", "\x00"}).Draw(rt, "innerbad")
							q, _ := stdjson.Marshal(in[:pos] + bad + in[pos:])
							sb.Write(q)
						default:
							sb.WriteString(strconv.Quote(inner.String()))
						}
						continue
					}
				}
				key = perturbKey(rt, name, o)
			}
			sb.WriteString(quoteKey(rt, key))
			sb.WriteString(ws(rt) + ":" + ws(rt))
			if ft == nil || key == "unknown" {
				genDoc(rt, sb, 2)
			} else {
				genDocFor(rt, sb, ft, o, depth+1)
			}
		}
		sb.WriteString(ws(rt))
		sb.WriteByte('}')
	default:
		genDoc(rt, sb, 1)
	}
}

// ------------------------------------------------------------------ mutation

var sigBytes = []byte("{}[],:\"\\/ \n019-+.eEtrufalsn\x00\x7f\x80\xc3")

var runBytes = []byte("\x80\x80\xbf\xa9\xff\xc3\xe2\xf0\x00 \"\\[{]}0-9a,:")

// Mutate applies 1..3 byte/token level mutations to a document.
func Mutate(rt *rapid.T, doc []byte) []byte {
	b := append([]byte{}, doc...)
	n := rapid.IntRange(1, 3).Draw(rt, "nmut")
	for i := 0; i < n; i++ {
		if len(b) == 0 {
			b = append(b, rapid.SampledFrom(sigBytes).Draw(rt, "ins"))
			continue
		}
		pos := rapid.IntRange(0, len(b)-1).Draw(rt, "mpos")
		switch rapid.IntRange(0, 6).Draw(rt, "mkind") {
		case 6: // insert a run of one byte value (runs of continuation / invalid bytes, quotes, brackets, digits, NULs)
			c := rapid.SampledFrom(runBytes).Draw(rt, "runbyte")
			run := bytes.Repeat([]byte{c}, rapid.SampledFrom([]int{2, 3, 7, 8, 15, 16, 17, 31, 32, 33, 34, 40, 63, 64, 65, 100}).Draw(rt, "runlen"))
			b = append(b[:pos], append(run, b[pos:]...)...)
		case 0: // delete
			b = append(b[:pos], b[pos+1:]...)
		case 1: // insert
			b = append(b[:pos], append([]byte{rapid.SampledFrom(sigBytes).Draw(rt, "ins")}, b[pos:]...)...)
		case 2: // replace
			b[pos] = rapid.SampledFrom(sigBytes).Draw(rt, "rep")
		case 3: // truncate
			b = b[:pos]
		case 4: // duplicate a span
			end := pos + rapid.IntRange(1, 8).Draw(rt, "span")
			if end > len(b) {
				end = len(b)
			}
			b = append(b[:end], append(append([]byte{}, b[pos:end]...), b[end:]...)...)
		case 5: // swap two bytes
			q := rapid.IntRange(0, len(b)-1).Draw(rt, "mpos2")
			b[pos], b[q] = b[q], b[pos]
		}
	}
	return b
}
