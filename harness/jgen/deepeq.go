package jgen

import (
	"fmt"
	"math"
	"reflect"
	"time"
	"unsafe"
)

var timeType = reflect.TypeOf(time.Time{})

// DeepEqual is reflect.DeepEqual except that floats are compared by bit
// pattern (NaN == NaN, +0 != -0 stays different as in DeepEqual... no: bits),
// time.Time is compared by instant, zone offset and zone name (two
// time.Parse calls return distinct *Location pointers for the same zone), and
// unexported fields are included. It returns "" when equal, otherwise a path
// and description of the first difference. With relaxNil set, nil and empty
// slices / maps are considered equal.
func DeepEqual(a, b any) string {
	return deepEq(reflect.ValueOf(a), reflect.ValueOf(b), "", false, map[visit]bool{}, 0)
}

func DeepEqualRelaxNil(a, b any) string {
	return deepEq(reflect.ValueOf(a), reflect.ValueOf(b), "", true, map[visit]bool{}, 0)
}

// DeepEqualValues compares two reflect.Values.
func DeepEqualValues(a, b reflect.Value, relaxNil bool) string {
	return deepEq(a, b, "", relaxNil, map[visit]bool{}, 0)
}

type visit struct {
	a, b unsafe.Pointer
	t    reflect.Type
}

func deepEq(a, b reflect.Value, path string, relax bool, seen map[visit]bool, depth int) string {
	if !a.IsValid() || !b.IsValid() {
		if a.IsValid() != b.IsValid() {
			return fmt.Sprintf("%s: one side invalid (nil interface) and the other not", path)
		}
		return ""
	}
	if a.Type() != b.Type() {
		return fmt.Sprintf("%s: type %s vs %s", path, a.Type(), b.Type())
	}
	if depth > 200 {
		return ""
	}
	t := a.Type()
	if t == timeType {
		ta := valueInterface(a).(time.Time)
		tb := valueInterface(b).(time.Time)
		na, oa := ta.Zone()
		nb, ob := tb.Zone()
		if !ta.Equal(tb) || oa != ob || na != nb || ta.IsZero() != tb.IsZero() {
			return fmt.Sprintf("%s: time %v (%s %d) vs %v (%s %d)", path, ta, na, oa, tb, nb, ob)
		}
		return ""
	}
	switch a.Kind() {
	case reflect.Bool:
		if a.Bool() != b.Bool() {
			return fmt.Sprintf("%s: %v vs %v", path, a.Bool(), b.Bool())
		}
	case reflect.Int, reflect.Int8, reflect.Int16, reflect.Int32, reflect.Int64:
		if a.Int() != b.Int() {
			return fmt.Sprintf("%s: %d vs %d", path, a.Int(), b.Int())
		}
	case reflect.Uint, reflect.Uint8, reflect.Uint16, reflect.Uint32, reflect.Uint64, reflect.Uintptr:
		if a.Uint() != b.Uint() {
			return fmt.Sprintf("%s: %d vs %d", path, a.Uint(), b.Uint())
		}
	case reflect.Float32, reflect.Float64:
		if math.Float64bits(a.Float()) != math.Float64bits(b.Float()) {
			return fmt.Sprintf("%s: %v (%#x) vs %v (%#x)", path, a.Float(), math.Float64bits(a.Float()), b.Float(), math.Float64bits(b.Float()))
		}
	case reflect.String:
		if a.String() != b.String() {
			return fmt.Sprintf("%s: %q vs %q", path, trunc(a.String()), trunc(b.String()))
		}
	case reflect.Ptr:
		if a.IsNil() != b.IsNil() {
			return fmt.Sprintf("%s: nil pointer %v vs %v", path, a.IsNil(), b.IsNil())
		}
		if a.IsNil() {
			return ""
		}
		v := visit{a.UnsafePointer(), b.UnsafePointer(), t}
		if seen[v] {
			return ""
		}
		seen[v] = true
		return deepEq(a.Elem(), b.Elem(), path+"*", relax, seen, depth+1)
	case reflect.Interface:
		if a.IsNil() != b.IsNil() {
			return fmt.Sprintf("%s: nil interface %v vs %v", path, a.IsNil(), b.IsNil())
		}
		if a.IsNil() {
			return ""
		}
		return deepEq(a.Elem(), b.Elem(), path+".("+a.Elem().Type().String()+")", relax, seen, depth+1)
	case reflect.Slice:
		if a.IsNil() != b.IsNil() && !(relax && a.Len() == 0 && b.Len() == 0) {
			return fmt.Sprintf("%s: nil slice %v vs %v", path, a.IsNil(), b.IsNil())
		}
		if a.Len() != b.Len() {
			return fmt.Sprintf("%s: len %d vs %d", path, a.Len(), b.Len())
		}
		for i := 0; i < a.Len(); i++ {
			if d := deepEq(a.Index(i), b.Index(i), fmt.Sprintf("%s[%d]", path, i), relax, seen, depth+1); d != "" {
				return d
			}
		}
	case reflect.Array:
		for i := 0; i < a.Len(); i++ {
			if d := deepEq(a.Index(i), b.Index(i), fmt.Sprintf("%s[%d]", path, i), relax, seen, depth+1); d != "" {
				return d
			}
		}
	case reflect.Map:
		if a.IsNil() != b.IsNil() && !(relax && a.Len() == 0 && b.Len() == 0) {
			return fmt.Sprintf("%s: nil map %v vs %v", path, a.IsNil(), b.IsNil())
		}
		if a.Len() != b.Len() {
			return fmt.Sprintf("%s: map len %d vs %d (%v vs %v)", path, a.Len(), b.Len(), mapKeys(a), mapKeys(b))
		}
		it := a.MapRange()
		for it.Next() {
			bv := b.MapIndex(it.Key())
			if !bv.IsValid() {
				// keys that contain pointers are equal by identity only: match them by content
				bit := b.MapRange()
				for bit.Next() {
					if deepEq(it.Key(), bit.Key(), path, relax, seen, depth+1) == "" {
						bv = bit.Value()
						break
					}
				}
			}
			if !bv.IsValid() {
				return fmt.Sprintf("%s: key %v missing on the right", path, it.Key())
			}
			if d := deepEq(it.Value(), bv, fmt.Sprintf("%s[%v]", path, it.Key()), relax, seen, depth+1); d != "" {
				return d
			}
		}
	case reflect.Struct:
		for i := 0; i < a.NumField(); i++ {
			if d := deepEq(a.Field(i), b.Field(i), path+"."+t.Field(i).Name, relax, seen, depth+1); d != "" {
				return d
			}
		}
	case reflect.Func, reflect.Chan, reflect.UnsafePointer:
		if a.IsNil() != b.IsNil() {
			return fmt.Sprintf("%s: nil-ness differs", path)
		}
	}
	return ""
}

func mapKeys(m reflect.Value) string {
	s := "["
	for i, k := range m.MapKeys() {
		if i > 8 {
			s += " …"
			break
		}
		s += fmt.Sprintf(" %v", k)
	}
	return s + " ]"
}

func trunc(s string) string {
	if len(s) > 120 {
		return s[:120] + "…"
	}
	return s
}

// valueInterface reads a value even when it was reached through unexported fields.
func valueInterface(v reflect.Value) any {
	if v.CanInterface() {
		return v.Interface()
	}
	if v.CanAddr() {
		return reflect.NewAt(v.Type(), unsafe.Pointer(v.UnsafeAddr())).Elem().Interface()
	}
	c := reflect.New(v.Type()).Elem()
	// copy through unsafe: v is not addressable and not interfaceable; fall back to zero compare
	_ = c
	return reflect.Zero(v.Type()).Interface()
}
