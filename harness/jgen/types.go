// Package jgen holds the generators shared by the json property packages:
// Go type descriptors (G-JT), value recipes (G-JV), JSON documents (G-JD) and
// the deep-equality oracle (R-DEEPEQ). See DESIGN.md §2.
package jgen

import (
	"encoding"
	"encoding/json"
	"fmt"
	"reflect"
	"strconv"
	"strings"
	"sync"
	"time"
	"unsafe"

	"pgregory.net/rapid"
)

// TypeDesc is a serialisable description of a Go type.
//
// K is one of: bool int int8 int16 int32 int64 uint uint8 uint16 uint32 uint64
// uintptr float32 float64 string bytes number raw time duration any
// ptr slice array map struct, or "@Name" for a type of the static corpus.
type TypeDesc struct {
	K      string      `json:"k"`
	Elem   *TypeDesc   `json:"elem,omitempty"`
	Key    *TypeDesc   `json:"key,omitempty"`
	Len    int         `json:"len,omitempty"`
	Fields []FieldDesc `json:"fields,omitempty"`
	Nonce  int         `json:"nonce,omitempty"`
}

type FieldDesc struct {
	Name string   `json:"name"`
	Tag  *string  `json:"tag,omitempty"` // content of the json struct tag; nil = no tag
	Emb  bool     `json:"emb,omitempty"`
	T    TypeDesc `json:"t"`
}

var scalarTypes = map[string]reflect.Type{
	"bool": reflect.TypeOf(false), "int": reflect.TypeOf(int(0)), "int8": reflect.TypeOf(int8(0)),
	"int16": reflect.TypeOf(int16(0)), "int32": reflect.TypeOf(int32(0)), "int64": reflect.TypeOf(int64(0)),
	"uint": reflect.TypeOf(uint(0)), "uint8": reflect.TypeOf(uint8(0)), "uint16": reflect.TypeOf(uint16(0)),
	"uint32": reflect.TypeOf(uint32(0)), "uint64": reflect.TypeOf(uint64(0)), "uintptr": reflect.TypeOf(uintptr(0)),
	"float32": reflect.TypeOf(float32(0)), "float64": reflect.TypeOf(float64(0)), "string": reflect.TypeOf(""),
	"bytes": reflect.TypeOf([]byte(nil)), "number": numberType, "raw": rawType,
	"time": reflect.TypeOf(time.Time{}), "duration": reflect.TypeOf(time.Duration(0)),
	"any": reflect.TypeOf((*any)(nil)).Elem(),
	// kinds encoding/json does not support (C06 only: must fail cleanly, never panic)
	"complex128": reflect.TypeOf(complex128(0)), "complex64": reflect.TypeOf(complex64(0)),
	"chan": reflect.TypeOf((chan int)(nil)), "func": reflect.TypeOf((func())(nil)),
	"unsafeptr": reflect.TypeOf(unsafe.Pointer(nil)),
}

// UnsupportedKinds are only generated when TypeOpts.Unsupported is set.
var UnsupportedKinds = []string{"complex128", "complex64", "chan", "func", "unsafeptr"}

// BadMapKeyKinds: map key kinds encoding/json rejects.
var BadMapKeyKinds = []string{"float64", "bool", "complex128", "@EmbA", "any", "@NamedBool", "@NamedF64"}

var typeMemo sync.Map // string -> reflect.Type

// Type materialises the descriptor. Identical descriptors give identical types.
func (d *TypeDesc) Type() reflect.Type {
	if t, ok := scalarTypes[d.K]; ok {
		return t
	}
	if len(d.K) > 0 && d.K[0] == '@' {
		t, ok := Corpus[d.K[1:]]
		if !ok {
			panic("jgen: unknown corpus type " + d.K)
		}
		return t
	}
	switch d.K {
	case "ptr":
		return reflect.PointerTo(d.Elem.Type())
	case "slice":
		return reflect.SliceOf(d.Elem.Type())
	case "array":
		return reflect.ArrayOf(d.Len, d.Elem.Type())
	case "map":
		return reflect.MapOf(d.Key.Type(), d.Elem.Type())
	case "struct":
		key := d.String()
		if t, ok := typeMemo.Load(key); ok {
			return t.(reflect.Type)
		}
		fs := make([]reflect.StructField, 0, len(d.Fields))
		for i, f := range d.Fields {
			sf := reflect.StructField{Name: f.Name, Type: f.T.Type(), Anonymous: f.Emb}
			tag := ""
			if f.Tag != nil {
				tag = `json:` + strconv.Quote(*f.Tag)
			}
			if i == 0 && d.Nonce != 0 {
				if tag != "" {
					tag += " "
				}
				tag += `v:"` + strconv.Itoa(d.Nonce) + `"`
			}
			sf.Tag = reflect.StructTag(tag)
			if f.Emb {
				sf.Name = sf.Type.Name()
				if sf.Type.Kind() == reflect.Ptr {
					sf.Name = sf.Type.Elem().Name()
				}
			}
			if c := f.Name[0]; !f.Emb && c >= 'a' && c <= 'z' {
				sf.PkgPath = "verif/harness/jgen"
			}
			fs = append(fs, sf)
		}
		t := reflect.StructOf(fs)
		typeMemo.Store(key, t)
		return t
	}
	panic("jgen: bad TypeDesc kind " + d.K)
}

func (d *TypeDesc) String() string {
	b, _ := json.Marshal(d)
	return string(b)
}

// Walk calls fn on d and every nested descriptor.
func (d *TypeDesc) Walk(fn func(*TypeDesc)) {
	fn(d)
	if d.Elem != nil {
		d.Elem.Walk(fn)
	}
	if d.Key != nil {
		d.Key.Walk(fn)
	}
	for i := range d.Fields {
		d.Fields[i].T.Walk(fn)
	}
}

// Has reports whether any nested descriptor has kind k.
func (d *TypeDesc) Has(k string) bool {
	found := false
	d.Walk(func(x *TypeDesc) {
		if x.K == k {
			found = true
		}
	})
	return found
}

// Depth of constructors.
func (d *TypeDesc) Depth() int {
	m := 0
	if d.Elem != nil {
		m = d.Elem.Depth()
	}
	if d.Key != nil {
		if k := d.Key.Depth(); k > m {
			m = k
		}
	}
	for i := range d.Fields {
		if k := d.Fields[i].T.Depth(); k > m {
			m = k
		}
	}
	switch d.K {
	case "ptr", "slice", "array", "map", "struct":
		return m + 1
	}
	return m
}

// ------------------------------------------------------------------ generation

// TypeOpts steers the type generator.
type TypeOpts struct {
	MaxDepth int
	// Avoid lists generator features to leave out (known-finding classes that
	// are avoided by construction, or domain restrictions of a property).
	Avoid map[string]bool
	// Leaves restricts corpus leaves: nil = all.
	NoCorpus bool
	// Unsupported also generates kinds and map key types encoding/json rejects.
	Unsupported bool
	// Durations also draws time.Duration leaves (encoded as a quoted string by this
	// package and as an integer by encoding/json: only for checks whose oracle is not
	// the standard library's bytes).
	Durations bool
	// pool collects the struct descriptors generated so far so that the same
	// struct type can be reused at several positions of one type tree.
	pool *[]TypeDesc
}

func (o TypeOpts) avoid(f string) bool { return o.Avoid != nil && o.Avoid[f] }

var scalarKinds = []string{"bool", "int", "int8", "int16", "int32", "int64", "uint", "uint8", "uint16", "uint32", "uint64", "uintptr",
	"float32", "float64", "string", "string", "bytes", "number", "raw", "time", "any", "any", "int", "string", "float64", "bool"}

var goFieldNames = []string{"A", "B", "C", "Ab", "AB", "Abc", "X", "Y", "Z", "F1", "Name", "ID", "K", "\u212a", "Xy", "S", "Abcdefghijklmnop", "Abcdefghijklmnopq", "Abcdefg"}
var unexportedNames = []string{"a", "b", "priv"}

var tagPool = []string{"a", "A", "b", "x", "X", "y", "a,omitempty", ",omitempty", ",string", "a,string", ",omitempty,string", "-", "-,", "a b",
	"<x>&", "\u00e9", "\u017f", "\u212a", "k", "K", "s", "S", `a"b`, ",unknownopt", "name,omitempty,string,extra", "Ab", "ab", "AB", "f1", ",", "ID", "id", "a ", "\u2028",
	// lengths around the 8- and 16-byte word sizes of the keyset lookup, with case variants
	"abcdefghijklmnop", "ABCDEFGHIJKLMNOP", "abcdefghijklmno", "abcdefghijklmnopq", "abcdefgh", "ABCDEFGH", "abcdefghi", "abcdefghijklmnop,omitempty",
	// HTML-sensitive characters one at a time (the combined "<x>&" is above)
	"a&b", "&", "a<b", "x>", "R&D,omitempty"}

var stringableKinds = []string{"bool", "string", "int", "int8", "int16", "int32", "int64", "uint", "uint8", "uint16", "uint32", "uint64", "uintptr", "float32", "float64", "float64", "float32",
	"@NamedInt", "@NamedF64", "@NamedBool", "@NamedStr", "@ByteUV", "@ByteUP", "@ByteUT", "@NamedU8"}

var embeddable = []string{"EmbA", "EmbB", "Deep", "Dup"}

var mapKeyKinds = []string{"string", "string", "string", "@NamedStr", "int", "int8", "int16", "int32", "int64", "uint", "uint8", "uint16", "uint32", "uint64", "uintptr", "@KText", "@NamedInt", "@KPS", "@IntKT"}

// GenType draws a type descriptor.
func GenType(rt *rapid.T, o TypeOpts) TypeDesc {
	o.pool = &[]TypeDesc{}
	return genType(rt, o, o.MaxDepth, true)
}

// PtrRecvMarshalers: corpus types whose marshal methods have pointer receivers
// (used only when the value is addressable).
var PtrRecvMarshalers = map[string]bool{"MPtr": true, "TPtr": true, "SE6": true, "PHold": true, "SAB": true, "ArrMPtr": true, "ArrTwice": true, "MArrFirst": true, "SE10": true, "SE11": true}

func hasPtrRecv(d *TypeDesc) bool {
	found := false
	d.Walk(func(x *TypeDesc) {
		if len(x.K) > 1 && x.K[0] == '@' && PtrRecvMarshalers[x.K[1:]] {
			found = true
		}
	})
	return found
}

func genLeaf(rt *rapid.T, o TypeOpts) TypeDesc {
	if o.Unsupported && rapid.IntRange(0, 7).Draw(rt, "unsup") == 0 {
		return TypeDesc{K: rapid.SampledFrom(UnsupportedKinds).Draw(rt, "unsupkind")}
	}
	if !o.NoCorpus && rapid.IntRange(0, 4).Draw(rt, "corpus") == 0 {
		for tries := 0; tries < 4; tries++ {
			n := rapid.SampledFrom(CorpusNames).Draw(rt, "cname")
			if o.avoid("@"+n) || (o.avoid("shared-ptr-recv") && (n == "SAB" || n == "ArrTwice" || n == "MArrFirst")) || (o.avoid("string-on-string") && n == "SOpt") || (o.avoid("multiembed") && MultiEmbedCorpus[n]) || (o.avoid("iface") && n == "Shape") || (o.avoid("marshalers") && EncodeOnly[n]) || (o.avoid("embedded") && len(n) > 1 && (n[:2] == "SE" || n == "Deep" || n == "Dup")) {
				continue
			}
			return TypeDesc{K: "@" + n}
		}
	}
	if o.Durations && rapid.IntRange(0, 11).Draw(rt, "dur") == 0 {
		return TypeDesc{K: "duration"}
	}
	for {
		k := rapid.SampledFrom(scalarKinds).Draw(rt, "kind")
		if o.avoid(k) {
			continue
		}
		return TypeDesc{K: k}
	}
}

func genType(rt *rapid.T, o TypeOpts, depth int, top bool) TypeDesc {
	if depth <= 0 || rapid.IntRange(0, 9).Draw(rt, "leaf") < 3 {
		return genLeaf(rt, o)
	}
	switch rapid.IntRange(0, 9).Draw(rt, "ctor") {
	case 0, 1:
		e := genType(rt, o, depth-1, false)
		if o.avoid("ptrptr") && e.K == "ptr" {
			return e
		}
		return TypeDesc{K: "ptr", Elem: &e}
	case 2, 3:
		e := genType(rt, o, depth-1, false)
		return TypeDesc{K: "slice", Elem: &e}
	case 4:
		e := genType(rt, o, depth-1, false)
		return TypeDesc{K: "array", Len: rapid.IntRange(0, 3).Draw(rt, "alen"), Elem: &e}
	case 5, 6:
		var k TypeDesc
		for {
			k = TypeDesc{K: rapid.SampledFrom(mapKeyKinds).Draw(rt, "mapkey")}
			if !o.avoid("key:" + k.K) {
				break
			}
		}
		if o.Unsupported && rapid.IntRange(0, 5).Draw(rt, "badkey") == 0 {
			k = TypeDesc{K: rapid.SampledFrom(BadMapKeyKinds).Draw(rt, "badkeykind")}
		}
		if !o.avoid("key:@NamedStrT") && rapid.IntRange(0, 19).Draw(rt, "nstkey") == 0 {
			k = TypeDesc{K: "@NamedStrT"}
		}
		e := genType(rt, o, depth-1, false)
		return TypeDesc{K: "map", Key: &k, Elem: &e}
	default:
		if o.pool != nil && len(*o.pool) > 0 && rapid.IntRange(0, 5).Draw(rt, "reuse") == 0 {
			d := (*o.pool)[rapid.IntRange(0, len(*o.pool)-1).Draw(rt, "reuseidx")]
			if !(o.avoid("shared-ptr-recv") && hasPtrRecv(&d)) {
				return d
			}
		}
		d := genStruct(rt, o, depth)
		if o.pool != nil && len(d.Fields) > 0 && len(d.Fields) < 20 {
			*o.pool = append(*o.pool, d)
		}
		return d
	}
}

func genStruct(rt *rapid.T, o TypeOpts, depth int) TypeDesc {
	d := TypeDesc{K: "struct"}
	n := rapid.IntRange(0, 6).Draw(rt, "nfields")
	wide := rapid.IntRange(0, 29).Draw(rt, "wide") == 0
	if wide {
		n = rapid.IntRange(30, 36).Draw(rt, "nwide")
	}
	used := map[string]bool{}
	nEmb := 0
	for i := 0; i < n; i++ {
		var f FieldDesc
		if wide {
			f.Name = fmt.Sprintf("F%02d", i)
		} else {
			f.Name = rapid.SampledFrom(goFieldNames).Draw(rt, "fname")
			if o.avoid("unifold") && hasFoldRune(f.Name) {
				f.Name = "K"
			}
			if rapid.IntRange(0, 11).Draw(rt, "unexp") == 0 {
				f.Name = rapid.SampledFrom(unexportedNames).Draw(rt, "uname")
			}
		}
		if used[f.Name] {
			continue
		}
		if !wide && !o.avoid("embedded") && !(o.avoid("multiembed") && nEmb > 0) && rapid.IntRange(0, 7).Draw(rt, "emb") == 0 {
			nEmb++
			en := rapid.SampledFrom(embeddable).Draw(rt, "embname")
			if used[en] {
				continue
			}
			used[en] = true
			f.Name = en
			f.Emb = true
			f.T = TypeDesc{K: "@" + en}
			if rapid.Bool().Draw(rt, "embptr") {
				e := f.T
				f.T = TypeDesc{K: "ptr", Elem: &e}
			}
			if rapid.IntRange(0, 5).Draw(rt, "embtag") == 0 {
				tg := rapid.SampledFrom(tagPool).Draw(rt, "tag")
				if o.avoid("unifold") && hasFoldRune(tg) {
					tg = "k"
				}
				f.Tag = &tg
			}
			d.Fields = append(d.Fields, f)
			continue
		}
		used[f.Name] = true
		fd := depth - 1
		if wide {
			fd = 0
		}
		f.T = genType(rt, o, fd, false)
		if rapid.IntRange(0, 9).Draw(rt, "hastag") < 4 {
			tg := rapid.SampledFrom(tagPool).Draw(rt, "tag")
			if o.avoid("unifold") && hasFoldRune(tg) {
				tg = "k"
			}
			if strings.Contains(tg, ",string") && rapid.Bool().Draw(rt, "stringable") {
				// the option only means something on bool / string / numeric fields and pointers to them
				k := TypeDesc{K: rapid.SampledFrom(stringableKinds).Draw(rt, "strkind")}
				switch rapid.IntRange(0, 5).Draw(rt, "strptr") {
				case 0, 1:
					f.T = TypeDesc{K: "ptr", Elem: &k}
				case 2:
					pk := TypeDesc{K: "ptr", Elem: &k}
					f.T = TypeDesc{K: "ptr", Elem: &pk}
				default:
					f.T = k
				}
				if o.avoid("ptrptr") && f.T.K == "ptr" && f.T.Elem.K == "ptr" {
					f.T = k
				}
			}
			if o.avoid("string-on-string") && strings.Contains(tg, ",string") && (f.T.Type().Kind() == reflect.String || (f.T.K == "ptr" && f.T.Elem.Type().Kind() == reflect.String)) {
				tg = strings.ReplaceAll(tg, ",string", "")
			}
			if o.avoid("string-on-number") && strings.Contains(tg, ",string") && (f.T.K == "number" || (f.T.K == "ptr" && f.T.Elem.K == "number")) {
				tg = strings.ReplaceAll(tg, ",string", "")
			}
			if o.avoid("string-on-unmarshaler") && strings.Contains(tg, ",string") && StringOptionOnUnmarshaler(f.T.Type()) {
				tg = strings.ReplaceAll(tg, ",string", "")
			}
			if !(o.avoid("string-on-marshaler") && strings.Contains(tg, ",string") && HasMarshalMethods(f.T.Type())) {
				f.Tag = &tg
			}
		}
		d.Fields = append(d.Fields, f)
	}
	return d
}

// StringOptionOnUnmarshaler: t (or the type it points to) is of a kind the ",string" option applies to
// and has an UnmarshalJSON / UnmarshalText method (json.Number, which has neither, is not meant).
func StringOptionOnUnmarshaler(t reflect.Type) bool {
	if t.Kind() == reflect.Ptr {
		t = t.Elem()
	}
	switch t.Kind() {
	case reflect.Bool, reflect.String, reflect.Float32, reflect.Float64,
		reflect.Int, reflect.Int8, reflect.Int16, reflect.Int32, reflect.Int64,
		reflect.Uint, reflect.Uint8, reflect.Uint16, reflect.Uint32, reflect.Uint64, reflect.Uintptr:
		p := reflect.PointerTo(t)
		return p.Implements(jsonUnmarshalerType) || p.Implements(textUnmarshalerType)
	}
	return false
}

// Fresh returns a copy of d in which every struct carries a nonce, making the
// materialised type distinct from any type seen before (defeats codec caches).
func Fresh(d TypeDesc, nonce int) TypeDesc {
	c := d
	if d.Elem != nil {
		e := Fresh(*d.Elem, nonce)
		c.Elem = &e
	}
	if d.Key != nil {
		k := Fresh(*d.Key, nonce)
		c.Key = &k
	}
	if len(d.Fields) > 0 {
		c.Fields = make([]FieldDesc, len(d.Fields))
		for i, f := range d.Fields {
			f.T = Fresh(f.T, nonce)
			c.Fields[i] = f
		}
		c.Nonce = nonce
	}
	return c
}

// MultiEmbedCorpus: corpus structs with more than one embedded struct (name
// conflicts between embedded structs at different depths).
var MultiEmbedCorpus = map[string]bool{"SE1": true, "SE2": true, "SE3": true, "SE4": true, "SE9": true, "SE13": true}

var (
	jsonMarshalerType   = reflect.TypeOf((*json.Marshaler)(nil)).Elem()
	textMarshalerType   = reflect.TypeOf((*encoding.TextMarshaler)(nil)).Elem()
	jsonUnmarshalerType = reflect.TypeOf((*json.Unmarshaler)(nil)).Elem()
	textUnmarshalerType = reflect.TypeOf((*encoding.TextUnmarshaler)(nil)).Elem()
)

// HasMarshalMethods reports whether t or *t implements a (Un)Marshaler interface.
func HasMarshalMethods(t reflect.Type) bool {
	for _, it := range []reflect.Type{jsonMarshalerType, textMarshalerType, jsonUnmarshalerType, textUnmarshalerType} {
		if t.Implements(it) || reflect.PointerTo(t).Implements(it) {
			return true
		}
	}
	return false
}

// hasFoldRune: the string contains a non-ASCII rune that case-folds to an
// ASCII letter (Kelvin sign, long s).
func hasFoldRune(s string) bool { return strings.ContainsAny(s, "\u212a\u017f") }

// HasFoldRune is the exported form.
func HasFoldRune(s string) bool { return hasFoldRune(s) }
