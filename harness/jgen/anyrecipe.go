package jgen

import (
	stdjson "encoding/json"
	"math"
	"sort"
)

// RecipeOfAny describes a generic value (as produced by encoding/json's decoder) as a jgen recipe of static type any.
func RecipeOfAny(v any) Recipe {
	dyn := func(k string, r Recipe) Recipe {
		return Recipe{Dyn: &TypeDesc{K: k}, Elems: []Recipe{r}}
	}
	switch x := v.(type) {
	case nil:
		return Recipe{Nil: true}
	case bool:
		if x {
			return dyn("bool", Recipe{I: 1})
		}
		return dyn("bool", Recipe{})
	case float64:
		return dyn("float64", Recipe{F: math.Float64bits(x)})
	case stdjson.Number:
		return dyn("number", Recipe{S: []byte(x)})
	case string:
		return dyn("string", Recipe{S: []byte(x)})
	case []any:
		anyT := TypeDesc{K: "any"}
		r := Recipe{Elems: []Recipe{}}
		for _, e := range x {
			r.Elems = append(r.Elems, RecipeOfAny(e))
		}
		return Recipe{Dyn: &TypeDesc{K: "slice", Elem: &anyT}, Elems: []Recipe{r}}
	case map[string]any:
		anyT, strT := TypeDesc{K: "any"}, TypeDesc{K: "string"}
		keys := make([]string, 0, len(x))
		for k := range x {
			keys = append(keys, k)
		}
		sort.Strings(keys)
		r := Recipe{Keys: []Recipe{}, Elems: []Recipe{}}
		for _, k := range keys {
			r.Keys = append(r.Keys, Recipe{S: []byte(k)})
			r.Elems = append(r.Elems, RecipeOfAny(x[k]))
		}
		return Recipe{Dyn: &TypeDesc{K: "map", Key: &strT, Elem: &anyT}, Elems: []Recipe{r}}
	}
	return Recipe{Nil: true}
}
