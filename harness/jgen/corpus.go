package jgen

import (
	"encoding/json"
	"errors"
	"reflect"
	"strconv"
	"strings"
)

// Static corpus: named types reflect cannot create (methods, recursion,
// unexported embedded fields). All methods are deterministic and pure; the
// Unmarshal* methods store a copy of what they were given so that the bytes
// passed in are observable by the deep-equality oracle.

// ---- marshalers

type MVal struct{ S string }

func (m MVal) MarshalJSON() ([]byte, error) {
	if m.S == "ERR" {
		return nil, errors.New("MVal: refused")
	}
	return []byte(`{"mval": ` + strconv.Quote(m.S) + ` }`), nil
}

type MPtr struct{ S string }

func (m *MPtr) MarshalJSON() ([]byte, error) {
	if m == nil {
		return []byte(`"nil-MPtr"`), nil
	}
	return []byte(`["mptr",` + strconv.Quote(m.S) + `]`), nil
}

type TVal struct{ S string }

func (m TVal) MarshalText() ([]byte, error) {
	if m.S == "ERR" {
		return nil, errors.New("TVal: refused")
	}
	return []byte("tval:" + m.S), nil
}

type TPtr struct{ S string }

func (m *TPtr) MarshalText() ([]byte, error) {
	if m == nil {
		return []byte("nil-TPtr"), nil
	}
	return []byte("tptr:" + m.S), nil
}

// MBoth implements both; MarshalJSON must win.
type MBoth struct{ S string }

func (m MBoth) MarshalJSON() ([]byte, error) {
	return []byte(`{"both":` + strconv.Quote(m.S) + `}`), nil
}
func (m MBoth) MarshalText() ([]byte, error) { return []byte("text:" + m.S), nil }

// MRaw returns its content verbatim: the output of a MarshalJSON method is
// checked (and compacted / HTML-escaped) by the encoder.
type MRaw struct{ Out string }

func (m MRaw) MarshalJSON() ([]byte, error) { return []byte(m.Out), nil }

// NamedStrT: string kind with MarshalText (as a map key the standard library
// uses the string itself, not MarshalText).
type NamedStrT string

func (s NamedStrT) MarshalText() ([]byte, error) { return []byte("nst:" + string(s)), nil }

// IntKT: integer kind with MarshalText. As a map key the text form is used
// (and the entries are sorted by it, not by the number or its decimal form):
// the text order is the reverse of the numeric order for small values.
type IntKT int

func (k IntKT) MarshalText() ([]byte, error) {
	return []byte("t" + strconv.Itoa(1000-int(k))), nil
}

type NamedStr string
type NamedInt int
type NamedBool bool
type NamedF64 float64
type NamedBytes []byte
type NamedSlice []int
type NamedMap map[string]int

// KText: comparable struct usable as a map key through MarshalText / UnmarshalText.
type KText struct{ A, B int8 }

func (k KText) MarshalText() ([]byte, error) {
	return []byte(strconv.Itoa(int(k.A)) + "/" + strconv.Itoa(int(k.B))), nil
}

func (k *KText) UnmarshalText(b []byte) error {
	p := strings.Split(string(b), "/")
	if len(p) != 2 {
		return errors.New("KText: want a/b")
	}
	a, err := strconv.ParseInt(p[0], 10, 8)
	if err != nil {
		return err
	}
	c, err := strconv.ParseInt(p[1], 10, 8)
	if err != nil {
		return err
	}
	k.A, k.B = int8(a), int8(c)
	return nil
}

// ByteM / ByteT: byte-kind element types with marshalers ([]ByteM is not base64).
type ByteM uint8

func (b ByteM) MarshalJSON() ([]byte, error) { return []byte(`"b` + strconv.Itoa(int(b)) + `"`), nil }

type ByteT uint8

// NamedU8 / ByteUV / ByteUP / ByteUT: byte-kind element types without and with unmarshal methods (a slice of them is
// decoded from an array element by element through the methods - also value-receiver ones, which are in the method
// set of the pointer - and from a string as base64).
type NamedU8 uint8

type ByteUV uint8

func (b ByteUV) UnmarshalJSON(p []byte) error {
	if string(p) == `"ERR"` {
		return errors.New("ByteUV: refused")
	}
	return nil
}

type ByteUP uint8

func (b *ByteUP) UnmarshalJSON(p []byte) error {
	n, err := strconv.ParseUint(strings.Trim(string(p), `"b`), 10, 8)
	if err != nil {
		return errors.New("ByteUP: not a small number")
	}
	*b = ByteUP(n) + 1
	return nil
}

type ByteUT uint8

func (b *ByteUT) UnmarshalText(p []byte) error {
	n, err := strconv.ParseUint(strings.TrimPrefix(string(p), "t"), 10, 8)
	if err != nil {
		return errors.New("ByteUT: not a small number")
	}
	*b = ByteUT(n) + 2
	return nil
}

func (b ByteT) MarshalText() ([]byte, error) { return []byte("t" + strconv.Itoa(int(b))), nil }

// ---- unmarshalers

type UJ struct{ Got string }

func (u *UJ) UnmarshalJSON(b []byte) error {
	if string(b) == `"REFUSE"` {
		return errors.New("UJ: refused")
	}
	u.Got = "json:" + string(b)
	return nil
}

type UT struct{ Got string }

func (u *UT) UnmarshalText(b []byte) error {
	if string(b) == "REFUSE" {
		return errors.New("UT: refused")
	}
	u.Got = "text:" + string(b)
	return nil
}

// UBoth: both unmarshalers; UnmarshalJSON must win.
type UBoth struct{ Got string }

func (u *UBoth) UnmarshalJSON(b []byte) error { u.Got = "json:" + string(b); return nil }
func (u *UBoth) UnmarshalText(b []byte) error { u.Got = "text:" + string(b); return nil }

// MU: symmetric marshal/unmarshal (round-trippable).
type MU struct{ V int }

func (m MU) MarshalJSON() ([]byte, error) { return []byte(`"mu` + strconv.Itoa(m.V) + `"`), nil }
func (m *MU) UnmarshalJSON(b []byte) error {
	s := string(b)
	if len(s) < 4 || s[:3] != `"mu` || s[len(s)-1] != '"' {
		return errors.New("MU: bad input")
	}
	v, err := strconv.Atoi(s[3 : len(s)-1])
	m.V = v
	return err
}

// ---- interfaces

type Shape interface{ Area() int }

type Sq struct{ N int }

func (s Sq) Area() int { return s.N * s.N }

type PSq struct{ N int }

func (s *PSq) Area() int { return s.N }

// ---- recursion

type Rec struct {
	V    int             `json:"v"`
	Next *Rec            `json:"next,omitempty"`
	Kids []Rec           `json:"kids,omitempty"`
	M    map[string]*Rec `json:"m,omitempty"`
}

// recursive non-struct types
type RecM map[string]RecM
type RecS []RecS
type RecMS map[string][]RecMS

type RecA struct {
	B *RecB
	N string
}
type RecB struct {
	A []RecA `json:"a"`
	I any
}

// PHold / SAB: the same struct type reached through a non-addressable path
// (A, when SAB is marshalled by value) and through a pointer (B).
type PHold struct{ F MPtr }
type SAB struct {
	A PHold
	B *PHold
}

// ArrMPtr / ArrTwice: a named array type (arrays inherit the addressability of the value that holds
// them) whose elements have pointer-receiver methods, met in addressable positions (field of a struct
// reached through a pointer, slice element, pointee) and in non-addressable ones (map value).
type ArrMPtr [1]MPtr
type ArrTPtr [2]TPtr
type ArrTwice struct {
	A ArrMPtr
	M map[string]ArrMPtr
	S []ArrMPtr
	P *ArrMPtr
	T ArrTPtr
	N map[string]ArrTPtr
}

// MArrFirst: the non-addressable occurrence comes first.
type MArrFirst struct {
	M map[string]ArrMPtr
	P *ArrMPtr
	A ArrMPtr
}

// InnerMP / SE10 / SE11: fields with pointer-receiver methods promoted through an embedded pointer
// (addressable whatever the outer value is) and through an embedded value (as addressable as the outer).
type InnerMP struct {
	X MPtr
	T TPtr `json:"t"`
}
type SE10 struct {
	*InnerMP
	Y int
}
type SE11 struct {
	InnerMP
	Y int
}

// SOpt: the ",string" option on every kind it applies to (and on pointers to them).
type SOpt struct {
	S  string   `json:"s,string"`
	PS *string  `json:"ps,string"`
	I  int      `json:"i,string"`
	U  uint8    `json:"u,string,omitempty"`
	F  float64  `json:",string"`
	F3 float32  `json:"f3,string"`
	B  bool     `json:"b,string"`
	PI *int64   `json:"pi,string"`
	PB *bool    `json:"pb,string,omitempty"`
	NS NamedStr `json:"ns,string"`
	L  []int    `json:"l,string"`
}

// ChanM / FuncT / KPS: pointer-shaped values that are not pointers or maps (a channel, a function, a struct
// whose only field is a pointer) with value-receiver marshal methods that look at the receiver; HPS holds
// them in every position, KPS also serves as a map key type.
type ChanM chan int

func (c ChanM) MarshalJSON() ([]byte, error) {
	if c == nil {
		return []byte(`"nil-chan"`), nil
	}
	return []byte(`{"chan-cap":` + strconv.Itoa(cap(c)) + `}`), nil
}

type FuncT func() int

func (f FuncT) MarshalText() ([]byte, error) {
	if f == nil {
		return []byte("nil-func"), nil
	}
	return []byte("func"), nil
}

type KPS struct{ P *int16 }

func (k KPS) MarshalText() ([]byte, error) {
	if k.P == nil {
		return []byte("kps:nil"), nil
	}
	return []byte("kps:" + strconv.Itoa(int(*k.P))), nil
}

type HPS struct {
	C  ChanM
	F  FuncT
	K  KPS
	M  map[KPS]int
	V  map[string]KPS
	A  [1]ChanM
	I  any
	PC *ChanM `json:"pc,omitempty"`
}

// AnyT: a named interface type without methods (decoded into like interface{}, but not the predeclared
// type, so the codecs specialised for interface{} / map[string]interface{} / []interface{} do not apply).
type AnyT interface{}
type HAny struct {
	A AnyT
	B any
	M map[string]AnyT
	S []AnyT
	P *AnyT `json:"p,omitempty"`
}

// Dup has names that conflict at its own level (hidden there); when it is embedded, a field of the
// same name one level up is still the single shallowest candidate and must stay visible.
type Dup struct {
	A  int    `json:"X"`
	B  int    `json:"X"`
	K  int    `json:"k"`
	K2 string `json:"k"`
	Y  int
	Z  int
}
type SE12 struct {
	X int
	Dup
	K string `json:"k"`
}
type SE13 struct {
	EmbA
	Dup
	*SE12
}

// ---- embedding

type EmbA struct {
	A int
	X string `json:"x"`
	Y string
}
type EmbB struct {
	B int
	X string `json:"x"`
	Y string `json:"y"`
}
type embU struct {
	U int
	Y string
	W *int `json:"w,omitempty"`
}
type Deep struct {
	EmbA
	D int
}
type embInt int

type SE1 struct {
	EmbA
	EmbB
	Z int
}
type SE2 struct {
	*EmbA
	*embU
	Q int `json:"Q"`
}
type SE3 struct {
	Deep
	EmbB
	A string
}
type SE4 struct {
	embU
	*EmbB `json:"eb"`
	EmbA  `json:",omitempty"`
}
type SE5 struct {
	MVal
	N int
}
type SE6 struct {
	*MPtr
	N int
}
type SE7 struct {
	NamedInt
	embInt
	K int
}
type SE8 struct {
	Deep
	X int `json:"x"`
	y int
	Z *Deep `json:"z,omitempty"`
}
type SE9 struct {
	*Deep
	*SE2
}

// Wide has 33 fields: beyond the 32-field keyset/map switch of the struct decoder.
type Wide struct {
	F00, F01, F02, F03, F04, F05, F06, F07, F08, F09 int
	F10, F11, F12, F13, F14, F15, F16, F17, F18, F19 string
	F20, F21, F22, F23, F24, F25, F26, F27, F28, F29 *int
	F30                                              []int `json:"f30,omitempty"`
	F31                                              bool  `json:"F31,string"`
	F32                                              any   `json:"last"`
}

// Corpus maps names (TypeDesc.K = "@name") to types.
var Corpus = map[string]reflect.Type{}

// CorpusNames in a fixed order (generators draw indexes).
var CorpusNames []string

func reg(v any) {
	t := reflect.TypeOf(v)
	Corpus[t.Name()] = t
	CorpusNames = append(CorpusNames, t.Name())
}

// EncodeOnly: corpus types without a faithful decoder (marshal-side tests only).
var EncodeOnly = map[string]bool{"MVal": true, "MPtr": true, "TVal": true, "TPtr": true, "MBoth": true, "MRaw": true, "NamedStrT": true, "IntKT": true, "ByteM": true, "ByteT": true, "SE5": true, "SE6": true, "PHold": true, "SAB": true,
	"ArrMPtr": true, "ArrTwice": true, "MArrFirst": true, "SE10": true, "SE11": true, "ChanM": true, "FuncT": true, "KPS": true, "HPS": true}

// InterfaceTypes: corpus entries that are non-empty interface types.
var shapeType = reflect.TypeOf((*Shape)(nil)).Elem()

func init() {
	reg(MVal{})
	reg(MPtr{})
	reg(TVal{})
	reg(TPtr{})
	reg(MBoth{})
	reg(MRaw{})
	reg(NamedStrT(""))
	reg(IntKT(0))
	reg(NamedStr(""))
	reg(NamedInt(0))
	reg(NamedBool(false))
	reg(NamedF64(0))
	reg(NamedBytes(nil))
	reg(NamedSlice(nil))
	reg(NamedMap(nil))
	reg(KText{})
	reg(ByteM(0))
	reg(ByteT(0))
	reg(NamedU8(0))
	reg(ByteUV(0))
	reg(ByteUP(0))
	reg(ByteUT(0))
	reg(UJ{})
	reg(UT{})
	reg(UBoth{})
	reg(MU{})
	reg(Sq{})
	reg(PSq{})
	reg(Rec{})
	reg(RecA{})
	reg(RecM(nil))
	reg(RecS(nil))
	reg(RecMS(nil))
	reg(EmbA{})
	reg(EmbB{})
	reg(Deep{})
	reg(SE1{})
	reg(SE2{})
	reg(SE3{})
	reg(SE4{})
	reg(SE5{})
	reg(SE6{})
	reg(SE7{})
	reg(SE8{})
	reg(SE9{})
	reg(Wide{})
	reg(PHold{})
	reg(SAB{})
	reg(ArrMPtr{})
	reg(ArrTwice{})
	reg(MArrFirst{})
	reg(SE10{})
	reg(Dup{})
	reg(SE12{})
	reg(SE13{})
	reg(SE11{})
	reg(SOpt{})
	Corpus["Shape"] = shapeType
	CorpusNames = append(CorpusNames, "Shape")
	Corpus["AnyT"] = reflect.TypeOf((*AnyT)(nil)).Elem()
	CorpusNames = append(CorpusNames, "AnyT")
	reg(HAny{})
	reg(ChanM(nil))
	reg(FuncT(nil))
	reg(KPS{})
	reg(HPS{})
}

var (
	numberType = reflect.TypeOf(json.Number(""))
	rawType    = reflect.TypeOf(json.RawMessage(nil))
)
