package jgen

import (
	"math"
	"reflect"
	"regexp"
	"strings"
	"time"
	"unsafe"

	"pgregory.net/rapid"
)

// Recipe is a serialisable description of a value of some type; Build turns it
// into an independent value any number of times.
type Recipe struct {
	Nil   bool      `json:"nil,omitempty"`
	I     int64     `json:"i,omitempty"`
	U     uint64    `json:"u,omitempty"`
	F     uint64    `json:"f,omitempty"` // float bits / zone offset
	S     []byte    `json:"s,omitempty"` // string, []byte, Number, RawMessage
	Elems []Recipe  `json:"elems,omitempty"`
	Keys  []Recipe  `json:"keys,omitempty"`
	Dyn   *TypeDesc `json:"dyn,omitempty"` // dynamic type held by an interface
}

// ValOpts steers the value generator.
type ValOpts struct {
	MaxLen   int  // max elements of slices / maps (default 6)
	BigSlice bool // allow the 5 % long slices (up to 300)
	Avoid    map[string]bool
	Depth    int // remaining recursion budget for recursive corpus types (default 3)
}

func (o ValOpts) avoid(f string) bool { return o.Avoid != nil && o.Avoid[f] }

var interestingInts = []int64{0, 1, -1, 2, 9, 10, 11, 99, 100, 101, 127, 128, -128, -129, 255, 256, 999, 1000, 32767, 32768, -32768, -32769, 65535, 65536,
	99999, 100000, 2147483647, 2147483648, -2147483648, -2147483649, 4294967295, 4294967296, 9007199254740991, 9007199254740992, 9007199254740993,
	999999999999999999, 1000000000000000000, math.MaxInt64, math.MinInt64, math.MaxInt64 - 1, math.MinInt64 + 1, 1e15, 1e16, 12345678901234567}

var interestingUints = []uint64{0, 1, 9, 10, 255, 256, 65535, 65536, 4294967295, 4294967296, math.MaxInt64, math.MaxInt64 + 1, math.MaxUint64, math.MaxUint64 - 1, 9999999999999999999, 10000000000000000000}

func genInt(rt *rapid.T) int64 {
	switch rapid.IntRange(0, 3).Draw(rt, "ik") {
	case 0:
		return rapid.SampledFrom(interestingInts).Draw(rt, "iint")
	case 1:
		return rapid.Int64Range(-1000, 1000).Draw(rt, "smallint")
	default:
		return rapid.Int64().Draw(rt, "int")
	}
}

func genUint(rt *rapid.T) uint64 {
	switch rapid.IntRange(0, 3).Draw(rt, "uk") {
	case 0:
		return rapid.SampledFrom(interestingUints).Draw(rt, "iuint")
	case 1:
		return rapid.Uint64Range(0, 1000).Draw(rt, "smalluint")
	default:
		return rapid.Uint64().Draw(rt, "uint")
	}
}

var interestingFloats = []float64{0, math.Copysign(0, -1), 1, -1, 0.1, 0.5, 1.5, 100, 1e20, 1e21, 1e22, 1e-6, 1e-7, 1e-5, 123456789, 1.7976931348623157e308, 5e-324, 2.2250738585072014e-308,
	3.4028234663852886e38, 1.401298464324817e-45, 1e6, 1e15, 1e16, 0.000001, 0.0000001, 99999999999999990000, 100000000000000000000, 123.456, -2.5e-8, 1e100, 1e-100}

func genFloatBits(rt *rapid.T, is32 bool, o ValOpts) uint64 {
	k := rapid.IntRange(0, 9).Draw(rt, "fk")
	var f float64
	switch {
	case k <= 3:
		f = rapid.SampledFrom(interestingFloats).Draw(rt, "ifloat")
		if rapid.Bool().Draw(rt, "neg") {
			f = -f
		}
	case k == 4:
		// neighbours of the exponent-format cut-offs
		base := rapid.SampledFrom([]float64{1e21, 1e-6, 1e20, 1e-7}).Draw(rt, "cut")
		steps := rapid.IntRange(-3, 3).Draw(rt, "ulps")
		if is32 {
			g := float32(base)
			for i := 0; i < steps; i++ {
				g = math.Nextafter32(g, float32(math.Inf(1)))
			}
			for i := 0; i > steps; i-- {
				g = math.Nextafter32(g, 0)
			}
			f = float64(g)
		} else {
			f = base
			for i := 0; i < steps; i++ {
				f = math.Nextafter(f, math.Inf(1))
			}
			for i := 0; i > steps; i-- {
				f = math.Nextafter(f, 0)
			}
		}
	case k == 5 && !o.avoid("nan"):
		f = rapid.SampledFrom([]float64{math.NaN(), math.Inf(1), math.Inf(-1)}).Draw(rt, "special")
	case k <= 7:
		f = float64(rapid.Int64Range(-100000, 100000).Draw(rt, "fi")) / float64(rapid.SampledFrom([]int64{1, 2, 4, 10, 100, 1000, 3, 7}).Draw(rt, "fd"))
	default:
		if is32 {
			f = float64(math.Float32frombits(rapid.Uint32().Draw(rt, "f32bits")))
		} else {
			f = math.Float64frombits(rapid.Uint64().Draw(rt, "f64bits"))
		}
		if o.avoid("nan") && (math.IsNaN(f) || math.IsInf(f, 0)) {
			f = 1.25
		}
	}
	if is32 {
		return uint64(math.Float32bits(float32(f)))
	}
	return math.Float64bits(f)
}

var strPieces = []string{"a", "b", "Z", "0", " ", "\"", "\\", "/", "<", ">", "&", "\u2028", "\u2029", "\u00e9", "\u4e16", "\U0001F600", "\x00", "\x01", "\x1f", "\x7f", "\n", "\t", "\r", "\b", "\f",
	"\xff", "\xc3", "\xed\xa0\x80", "\xe2\x80", "\u00ff", "\ufffd", "'", "=", "abcdefgh", "01234567", "null", "true", "{", "}", "[", "]", ":", ",", "\xf0\x9f\x98", "\xc0\xaf"}

// GenString draws a string biased towards JSON-significant content, with the
// "special" pieces landing on every residue of the 8-byte word scans.
func GenString(rt *rapid.T) []byte {
	k := rapid.IntRange(0, 19).Draw(rt, "sk")
	switch {
	case k == 0:
		return []byte{}
	case k <= 3:
		return []byte(rapid.StringMatching(`[a-zA-Z0-9_]{1,12}`).Draw(rt, "ident"))
	case k == 4:
		// long plain run with one special piece at a chosen offset
		n := rapid.IntRange(1, 70).Draw(rt, "runlen")
		if rapid.IntRange(0, 9).Draw(rt, "long") == 0 {
			n = rapid.IntRange(65, 300).Draw(rt, "longlen")
		}
		b := make([]byte, n)
		for i := range b {
			b[i] = 'a' + byte(i%26)
		}
		pos := rapid.IntRange(0, n-1).Draw(rt, "pos")
		piece := rapid.SampledFrom(strPieces).Draw(rt, "piece")
		return append(append(append([]byte{}, b[:pos]...), piece...), b[pos:]...)
	case k == 5:
		return []byte(rapid.String().Draw(rt, "anystr"))
	case k == 6:
		if rapid.IntRange(0, 3).Draw(rt, "errstr") == 0 {
			return []byte("ERR") // the corpus marshalers (MVal, TVal) fail on this value
		}
		return rapid.SliceOfN(rapid.Byte(), 0, 24).Draw(rt, "rawbytes")
	default:
		n := rapid.IntRange(1, 10).Draw(rt, "npieces")
		var b []byte
		for i := 0; i < n; i++ {
			b = append(b, rapid.SampledFrom(strPieces).Draw(rt, "piece")...)
		}
		return b
	}
}

var jsonNumberRE = regexp.MustCompile(`^-?(0|[1-9][0-9]*)(\.[0-9]+)?([eE][+-]?[0-9]+)?$`)

var numberLits = []string{"0", "1", "-1", "1.5", "1e5", "1E+2", "-0", "0.0", "123456789012345678901234567890", "1e400", "-1.5e-300", "0.1", "9007199254740993", "18446744073709551615", "-9223372036854775808", "3.14159"}
var badNumberLits = []string{"1x", "01", "1e", "-", " 1", "1 ", "+1", ".5", "1.", "0x10", "NaN", "Infinity", "1e+", "--1", "1_0", "abc", "\"1\"", "１"}

var rawLits = []string{`null`, `true`, `false`, `0`, `-1.5e3`, `"s"`, `[]`, `{}`, `[1,2,3]`, `{"a":1,"b":[true,null]}`, ` {"a" : 1 } `, "[1,\n 2 ]", `"<x>&"`, "\" \"", `{"k":"< >"}`, `[[[[]]]]`,
	`"é😀"`, `{"a":{"b":{"c":[1,{"d":null}]}}}`, `  1  `, `"\/"`, `"<"`, `{"":""}`, `1e5`, `-0`}
var badRawLits = []string{``, ` `, `{`, `[1,]`, `{"a"}`, `1 2`, `nul`, `"abc`, `[1 2]`, `{"a":1,}`, `tru`, `01`, `"\x"`, "\"\x01\"", `}`, `{"a":}`, `[`, `1,`, `"a"b`, `-`, `{"a":1}}`}

// GenValue draws a recipe for a value of type t.
func GenValue(rt *rapid.T, t reflect.Type, o ValOpts) Recipe {
	if o.MaxLen == 0 {
		o.MaxLen = 6
	}
	if o.Depth == 0 {
		o.Depth = 3
	}
	return genValue(rt, t, o, 0)
}

func genValue(rt *rapid.T, t reflect.Type, o ValOpts, depth int) Recipe {
	switch t {
	case numberType:
		if !o.avoid("badnumber") && rapid.IntRange(0, 7).Draw(rt, "badnum") == 0 {
			return Recipe{S: []byte(rapid.SampledFrom(badNumberLits).Draw(rt, "badnumlit"))}
		}
		if rapid.IntRange(0, 9).Draw(rt, "emptynum") == 0 && !o.avoid("emptynumber") {
			return Recipe{S: []byte{}}
		}
		if rapid.IntRange(0, 2).Draw(rt, "composednum") == 0 {
			// composed literal (digit counts, odd fractions, exponents at the range limits); malformed ones only
			// where a check accepts Numbers that are not numbers
			lit := floatLit(rt)
			if jsonNumberRE.MatchString(lit) || !o.avoid("badnumber") {
				return Recipe{S: []byte(lit)}
			}
		}
		return Recipe{S: []byte(rapid.SampledFrom(numberLits).Draw(rt, "numlit"))}
	case rawType:
		k := rapid.IntRange(0, 9).Draw(rt, "rawk")
		switch {
		case k == 0:
			return Recipe{Nil: true}
		case k == 1 && !o.avoid("badraw"):
			return Recipe{S: []byte(rapid.SampledFrom(badRawLits).Draw(rt, "badraw"))}
		case k == 2:
			return Recipe{S: GenDocument(rt, 3)}
		case k == 3 && !o.avoid("badraw"):
			return Recipe{S: Mutate(rt, GenDocument(rt, 2))}
		default:
			return Recipe{S: []byte(rapid.SampledFrom(rawLits).Draw(rt, "rawlit"))}
		}
	case scalarTypes["time"]:
		var r Recipe
		switch rapid.IntRange(0, 5).Draw(rt, "tk") {
		case 0:
			r.I = rapid.SampledFrom([]int64{0, -62135596800, 253402300799, 253402300800, -62167219200, -62198755200, 1616708172, -1, 951782400}).Draw(rt, "tsec")
		default:
			r.I = rapid.Int64Range(-62135596800, 253402300799).Draw(rt, "tsecr")
		}
		if rapid.Bool().Draw(rt, "hasns") {
			r.U = uint64(rapid.SampledFrom([]int64{0, 1, 999999999, 500000000, 123456789, 1000, 100}).Draw(rt, "ns"))
		}
		switch rapid.IntRange(0, 4).Draw(rt, "zk") {
		case 0:
			r.Nil = true // UTC
		case 1:
			r.F = uint64(int64(rapid.SampledFrom([]int{3600, -3600, 19800, -43200, 50400, 86340, -86340, 1, 59, 60, 90000, -90000}).Draw(rt, "zoff")))
		default:
			r.F = uint64(int64(rapid.IntRange(-14, 14).Draw(rt, "zh") * 3600))
		}
		return r
	case scalarTypes["duration"]:
		return Recipe{I: genInt(rt)}
	}
	switch t.Kind() {
	case reflect.Bool:
		if rapid.Bool().Draw(rt, "b") {
			return Recipe{I: 1}
		}
		return Recipe{}
	case reflect.Int, reflect.Int8, reflect.Int16, reflect.Int32, reflect.Int64:
		return Recipe{I: genInt(rt)}
	case reflect.Uint, reflect.Uint8, reflect.Uint16, reflect.Uint32, reflect.Uint64, reflect.Uintptr:
		return Recipe{U: genUint(rt)}
	case reflect.Float32:
		return Recipe{F: genFloatBits(rt, true, o)}
	case reflect.Float64:
		return Recipe{F: genFloatBits(rt, false, o)}
	case reflect.String:
		return Recipe{S: GenString(rt)}
	case reflect.Complex64, reflect.Complex128:
		return Recipe{F: genFloatBits(rt, false, o)}
	case reflect.Chan, reflect.Func, reflect.UnsafePointer:
		return Recipe{Nil: rapid.Bool().Draw(rt, "nilref")}
	case reflect.Ptr:
		if rapid.IntRange(0, 3).Draw(rt, "nilptr") == 0 || depth > 24 {
			return Recipe{Nil: true}
		}
		e := genValue(rt, t.Elem(), o, depth+1)
		return Recipe{Elems: []Recipe{e}}
	case reflect.Slice:
		if t.Elem().Kind() == reflect.Uint8 && t.Elem().PkgPath() == "" {
			k := rapid.IntRange(0, 9).Draw(rt, "bytesk")
			switch {
			case k == 0:
				return Recipe{Nil: true}
			case k == 1:
				return Recipe{S: []byte{}}
			default:
				return Recipe{S: rapid.SliceOfN(rapid.Byte(), 1, 100).Draw(rt, "bytes")}
			}
		}
		k := rapid.IntRange(0, 9).Draw(rt, "slk")
		if k == 0 || depth > 24 {
			return Recipe{Nil: true}
		}
		n := 0
		if k > 1 {
			n = rapid.IntRange(1, o.MaxLen).Draw(rt, "sllen")
			if o.BigSlice && rapid.IntRange(0, 19).Draw(rt, "bigsl") == 0 && depth < 2 {
				n = rapid.IntRange(9, 300).Draw(rt, "bigsllen")
			}
		}
		if (isRecursive(t.Elem()) || isRecursive(t)) && depth/2 >= o.Depth {
			n = 0
		}
		r := Recipe{Elems: make([]Recipe, 0, n)}
		for i := 0; i < n; i++ {
			r.Elems = append(r.Elems, genValue(rt, t.Elem(), o, depth+1))
		}
		return r
	case reflect.Array:
		r := Recipe{Elems: make([]Recipe, 0, t.Len())}
		for i := 0; i < t.Len(); i++ {
			r.Elems = append(r.Elems, genValue(rt, t.Elem(), o, depth+1))
		}
		return r
	case reflect.Map:
		k := rapid.IntRange(0, 9).Draw(rt, "mk")
		if k == 0 || depth > 24 {
			return Recipe{Nil: true}
		}
		n := 0
		if k > 1 {
			n = rapid.IntRange(1, o.MaxLen).Draw(rt, "mlen")
		}
		if (isRecursive(t.Elem()) || isRecursive(t)) && depth/2 >= o.Depth {
			n = 0
		}
		if t.Key() == Corpus["KPS"] && n > 1 {
			// keys are distinct by pointer identity but can have the same text: the order of such members is
			// unspecified in both libraries
			n = 1
		}
		r := Recipe{}
		for i := 0; i < n; i++ {
			kr := genValue(rt, t.Key(), o, depth+1)
			if t.Key().Kind() == reflect.String && rapid.IntRange(0, 2).Draw(rt, "simplekey") > 0 {
				kr = Recipe{S: []byte(rapid.SampledFrom([]string{"a", "b", "A", "k1", "k2", "", "z", "<", "é", "10", "9"}).Draw(rt, "key"))}
			}
			if t.Key().Kind() == reflect.Interface {
				// keep interface keys hashable
				st := TypeDesc{K: rapid.SampledFrom([]string{"string", "int", "bool"}).Draw(rt, "ifacekey")}
				kr = Recipe{Dyn: &st, Elems: []Recipe{genValue(rt, st.Type(), o, depth+1)}}
			}
			if o.avoid("badutf8keys") && t.Key().Kind() == reflect.String {
				// distinct keys with invalid UTF-8 can collide once replaced by U+FFFD in the output
				kr.S = []byte(strings.ToValidUTF8(string(kr.S), "?"))
			}
			r.Keys = append(r.Keys, kr)
			r.Elems = append(r.Elems, genValue(rt, t.Elem(), o, depth+1))
		}
		return r
	case reflect.Struct:
		r := Recipe{Elems: make([]Recipe, 0, t.NumField())}
		for i := 0; i < t.NumField(); i++ {
			r.Elems = append(r.Elems, genValue(rt, t.Field(i).Type, o, depth+1))
		}
		return r
	case reflect.Interface:
		if rapid.IntRange(0, 4).Draw(rt, "niliface") == 0 || depth > 20 {
			return Recipe{Nil: true}
		}
		var dyn TypeDesc
		if t.NumMethod() > 0 {
			// Shape
			dyn = TypeDesc{K: "@Sq"}
			if rapid.Bool().Draw(rt, "psq") {
				e := TypeDesc{K: "@PSq"}
				dyn = TypeDesc{K: "ptr", Elem: &e}
			}
		} else {
			dyn = genDynType(rt, o, depth)
		}
		e := genValue(rt, dyn.Type(), o, depth+2)
		return Recipe{Dyn: &dyn, Elems: []Recipe{e}}
	}
	return Recipe{}
}

var dynScalars = []string{"bool", "int", "int64", "uint8", "uint64", "float64", "float32", "string", "string", "number", "bytes", "time", "raw", "@MVal", "@NamedStr", "@NamedInt", "@MU", "@TVal"}

func genDynType(rt *rapid.T, o ValOpts, depth int) TypeDesc {
	k := rapid.IntRange(0, 11).Draw(rt, "dynk")
	any_ := TypeDesc{K: "any"}
	str := TypeDesc{K: "string"}
	switch {
	case k <= 5 || depth > 8:
		for {
			s := rapid.SampledFrom(dynScalars).Draw(rt, "dynscalar")
			if o.avoid(s) || (o.avoid("marshalers") && s[0] == '@' && EncodeOnly[s[1:]]) {
				continue
			}
			return TypeDesc{K: s}
		}
	case k == 6:
		return TypeDesc{K: "slice", Elem: &any_}
	case k == 7:
		return TypeDesc{K: "map", Key: &str, Elem: &any_}
	case k == 8:
		// a pointer held by the interface: decoders decode *into* it when it is not nil
		var e TypeDesc
		switch rapid.IntRange(0, 7).Draw(rt, "dynptrk") {
		case 0, 1, 2:
			e = TypeDesc{K: rapid.SampledFrom([]string{"int", "string", "bool", "float64"}).Draw(rt, "dynptr")}
		case 3, 4:
			tg := "n,omitempty"
			e = TypeDesc{K: "struct", Fields: []FieldDesc{{Name: "A", T: TypeDesc{K: "int"}}, {Name: "N", Tag: &tg, T: any_}, {Name: "M", T: TypeDesc{K: "map", Key: &str, Elem: &any_}}}}
		case 5:
			e = TypeDesc{K: "map", Key: &str, Elem: &any_}
		case 6:
			e = TypeDesc{K: "slice", Elem: &any_}
		default:
			e = any_
		}
		return TypeDesc{K: "ptr", Elem: &e}
	case k == 9:
		tg := "n,omitempty"
		return TypeDesc{K: "struct", Fields: []FieldDesc{{Name: "A", T: TypeDesc{K: "int"}}, {Name: "N", Tag: &tg, T: any_}}}
	case k == 10:
		e := TypeDesc{K: rapid.SampledFrom([]string{"int", "string", "any"}).Draw(rt, "dynsl")}
		return TypeDesc{K: "slice", Elem: &e}
	default:
		e := TypeDesc{K: rapid.SampledFrom([]string{"int", "string", "any", "bool"}).Draw(rt, "dynmap")}
		return TypeDesc{K: "map", Key: &str, Elem: &e}
	}
}

func isRecursive(t reflect.Type) bool {
	for i := 0; i < 8 && t.Name() == "" && (t.Kind() == reflect.Ptr || t.Kind() == reflect.Slice); i++ {
		t = t.Elem()
	}
	switch t.Name() {
	case "Rec", "RecA", "RecB", "RecM", "RecS", "RecMS":
		return true
	}
	return false
}

// Build constructs a fresh addressable value of type t from the recipe.
func Build(t reflect.Type, r Recipe) reflect.Value {
	v := reflect.New(t).Elem()
	build(v, r)
	return v
}

func settable(v reflect.Value) reflect.Value {
	if v.CanSet() {
		return v
	}
	return reflect.NewAt(v.Type(), unsafe.Pointer(v.UnsafeAddr())).Elem()
}

func build(v reflect.Value, r Recipe) {
	t := v.Type()
	switch t {
	case numberType:
		v.SetString(string(r.S))
		return
	case rawType:
		if r.Nil {
			return
		}
		v.SetBytes(append([]byte{}, r.S...))
		return
	case scalarTypes["time"]:
		tm := time.Unix(r.I, int64(r.U))
		if r.Nil {
			tm = tm.UTC()
		} else {
			tm = tm.In(time.FixedZone("", int(int64(r.F))))
		}
		v.Set(reflect.ValueOf(tm))
		return
	}
	switch t.Kind() {
	case reflect.Bool:
		v.SetBool(r.I != 0)
	case reflect.Int, reflect.Int8, reflect.Int16, reflect.Int32, reflect.Int64:
		v.SetInt(r.I) // truncates to the width, deterministically
	case reflect.Uint, reflect.Uint8, reflect.Uint16, reflect.Uint32, reflect.Uint64, reflect.Uintptr:
		v.SetUint(r.U)
	case reflect.Float32:
		v.SetFloat(float64(math.Float32frombits(uint32(r.F))))
	case reflect.Float64:
		v.SetFloat(math.Float64frombits(r.F))
	case reflect.String:
		v.SetString(string(r.S))
	case reflect.Complex64, reflect.Complex128:
		v.SetComplex(complex(math.Float64frombits(r.F), 1))
	case reflect.Chan:
		if !r.Nil {
			v.Set(reflect.MakeChan(t, 1))
		}
	case reflect.Func:
		if !r.Nil {
			v.Set(reflect.MakeFunc(t, func([]reflect.Value) []reflect.Value { return nil }))
		}
	case reflect.UnsafePointer:
		if !r.Nil {
			x := new(int)
			v.SetPointer(unsafe.Pointer(x))
		}
	case reflect.Ptr:
		if r.Nil || len(r.Elems) == 0 {
			return
		}
		p := reflect.New(t.Elem())
		build(p.Elem(), r.Elems[0])
		v.Set(p)
	case reflect.Slice:
		if t.Elem().Kind() == reflect.Uint8 && t.Elem().PkgPath() == "" {
			if r.Nil {
				return
			}
			v.SetBytes(append([]byte{}, r.S...))
			if t != reflect.TypeOf([]byte(nil)) {
				v.Set(reflect.ValueOf(append([]byte{}, r.S...)).Convert(t))
			}
			return
		}
		if r.Nil {
			return
		}
		s := reflect.MakeSlice(t, len(r.Elems), len(r.Elems))
		for i := range r.Elems {
			build(s.Index(i), r.Elems[i])
		}
		v.Set(s)
	case reflect.Array:
		for i := 0; i < t.Len() && i < len(r.Elems); i++ {
			build(v.Index(i), r.Elems[i])
		}
	case reflect.Map:
		if r.Nil {
			return
		}
		m := reflect.MakeMapWithSize(t, len(r.Keys))
		for i := range r.Keys {
			k := reflect.New(t.Key()).Elem()
			build(k, r.Keys[i])
			e := reflect.New(t.Elem()).Elem()
			build(e, r.Elems[i])
			m.SetMapIndex(k, e)
		}
		v.Set(m)
	case reflect.Struct:
		for i := 0; i < t.NumField() && i < len(r.Elems); i++ {
			f := t.Field(i)
			if !f.IsExported() && !f.Anonymous {
				continue // plain unexported fields stay zero (the codecs must ignore them)
			}
			build(settable(v.Field(i)), r.Elems[i])
		}
	case reflect.Interface:
		if r.Nil || r.Dyn == nil || len(r.Elems) == 0 {
			return
		}
		dv := reflect.New(r.Dyn.Type()).Elem()
		build(dv, r.Elems[0])
		v.Set(dv)
	}
}
