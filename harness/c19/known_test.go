package c19

import (
	"strings"
	"testing"

	"verif/harness/evid"
	ps "verif/harness/pschema"
)

const (
	// MessageRewriter.Rewrite sizes its seen-set with makeFieldset(len(r)+1),
	// which rounds down: a rule set whose highest field number M is >= 256 with
	// M%64 < 61 indexes the set out of range (panic). The generators drop such
	// rules while the class is active.
	clsFieldset = "messagerewriter-seen-set-undersized"
	// MessageRewriter.Rewrite hands only the FIRST occurrence of a ruled field
	// to the rule and drops the later ones. For a nested template (embedded
	// message split into several occurrences, legal protobuf) the untemplated
	// sub-fields of the later occurrences are lost; for BitOr the mask is or-ed
	// into the first, overridden, value. While active the generator merges such
	// occurrences back into one.
	clsFirstOcc = "ruled-field-later-occurrences-dropped"
	// bitOrRW.Rewrite reads the current value with Unmarshal(in, &v), i.e. as a
	// plain varint, also for sint32/sint64 fields, then zig-zag encodes the
	// result: the zig-zag form is or-ed and encoded a second time (mask 0 turns
	// 1 into 2). The generators do not put BitOr on zigzag fields while active.
	clsBitOrSint = "bitor-on-sint-field-double-zigzag"
)

func hasBitOrSint(s *ps.Schema, mi int, t *TMsg) bool {
	m := &s.Msgs[mi]
	for i := range t.Fields {
		f := &m.Fields[t.Fields[i].Idx]
		if t.Fields[i].BitOr && f.Opt == "zigzag" {
			return true
		}
		if t.Fields[i].Sub != nil && hasBitOrSint(s, f.Msg, t.Fields[i].Sub) {
			return true
		}
	}
	return false
}

// multiOcc reports whether, somewhere in the template, a nested-template or
// BitOr field occurs more than once in the (merged) input message of its level.
func multiOcc(s *ps.Schema, mi int, t *TMsg, payloads [][]byte) bool {
	m := &s.Msgs[mi]
	for i := range t.Fields {
		tf := &t.Fields[i]
		if tf.Sub == nil && !tf.BitOr {
			continue
		}
		f := &m.Fields[tf.Idx]
		n := 0
		var sub [][]byte
		for _, p := range payloads {
			ts, err := tokens(p)
			if err != nil {
				continue
			}
			for _, x := range ts {
				if int(x.num) == f.Num {
					n++
					sub = append(sub, x.payload)
				}
			}
		}
		if n > 1 {
			return true
		}
		if tf.Sub != nil && multiOcc(s, f.Msg, tf.Sub, sub) {
			return true
		}
	}
	return false
}

// maxRule returns the highest templated number at any level of the template
// for which fieldsetPanics holds (0 if none).
func panickyLevel(s *ps.Schema, mi int, t *TMsg) bool {
	m := &s.Msgs[mi]
	max := 0
	for i := range t.Fields {
		f := &m.Fields[t.Fields[i].Idx]
		if f.Num > max {
			max = f.Num
		}
		if t.Fields[i].Sub != nil && panickyLevel(s, f.Msg, t.Fields[i].Sub) {
			return true
		}
		if t.Fields[i].Sub == nil && (f.K == ps.KMsg || (f.K == ps.KMap && f.Val == ps.KMsg)) && completePanicky(s, f.Msg) {
			return true // complete-object template of a repeated / map message value
		}
	}
	return fieldsetPanics(max)
}

func classify(c *Case, f *fail) string {
	if f.Class == "panic" && f.Stage == "rewrite" && c.Mode != "hand" && strings.Contains(f.Observed, "index out of range") && panickyLevel(&c.Schema, 0, &c.Tmpl) {
		return clsFieldset
	}
	if f.Class == "panic" && f.Stage == "rewrite" && c.Mode == "hand" && strings.Contains(f.Observed, "index out of range") && handMax(c) {
		return clsFieldset
	}
	if hasBitOrSint(&c.Schema, 0, &c.Tmpl) {
		if f.Class == "rewrite-error" && strings.Contains(f.Observed, "integer overflow") {
			return clsBitOrSint
		}
		if f.Class == "value-mismatch" && len(f.Diffs) > 0 {
			all := true
			for _, d := range f.Diffs {
				if d.F == nil || d.F.Opt != "zigzag" || d.F.Rep {
					all = false
				}
			}
			if all {
				return clsBitOrSint
			}
		}
	}
	if c.Mode != "hand" || hasBitOr(&c.Tmpl) {
		if (f.Class == "value-mismatch" || f.Class == "untemplated-not-carried") && multiOcc(&c.Schema, 0, &c.Tmpl, [][]byte{c.Input}) {
			return clsFirstOcc
		}
	}
	return ""
}

// handMax: the flat hand-assembled rule set has a panicky highest number.
func handMax(c *Case) bool {
	max := 0
	for i := range c.Tmpl.Fields {
		if n := c.Schema.Msgs[0].Fields[c.Tmpl.Fields[i].Idx].Num; n > max {
			max = n
		}
	}
	return fieldsetPanics(max)
}

func hasBitOr(t *TMsg) bool {
	for i := range t.Fields {
		if t.Fields[i].BitOr || (t.Fields[i].Sub != nil && hasBitOr(t.Fields[i].Sub)) {
			return true
		}
	}
	return false
}

func knownClass(c *Case, f *fail) string { return classify(c, f) }

func witness(c Case) func() *evid.Failure {
	return func() *evid.Failure {
		var fx facts
		if f := check(&c, &fx); f != nil {
			return &f.Failure
		}
		return nil
	}
}

func num(n uint64) *ps.Val { return &ps.Val{N: n} }

var classes = []evid.Class{
	{Name: clsFieldset, Witness: witness(Case{
		// message { int64 f0 = 300; }  MessageRewriter{300: FieldNumber(300).Int64(7)} applied to {f0: 1}
		Schema: ps.Schema{Msgs: []ps.Message{{Tagged: true, Fields: []ps.Field{{Num: 300, K: ps.KInt64}}}}},
		Mode:   "hand",
		Tmpl:   TMsg{Fields: []TField{{Idx: 0, V: num(7)}}},
		Input:  []byte{0xe0, 0x12, 0x01},
	})},
	{Name: clsBitOrSint, Witness: witness(Case{
		// message { sint64 f0 = 1; }  rules {"f0": BitOr[int64]{}}, template {"f0": 0} applied to {f0: 1} (08 02)
		Schema: ps.Schema{Msgs: []ps.Message{{Tagged: true, Fields: []ps.Field{{Num: 1, K: ps.KInt64, Opt: "zigzag"}}}}},
		Mode:   "rules",
		Tmpl:   TMsg{Fields: []TField{{Idx: 0, V: num(0), BitOr: true}}},
		Input:  []byte{0x08, 0x02},
	})},
	{Name: clsFirstOcc, Witness: witness(Case{
		// message M0 { M1 f0 = 1; }  message M1 { repeated bool f0 = 1; int64 f1 = 2; }
		// template {"F0": {"F1": 1}} applied to 0a 00 0a 02 08 01 (sub-message split in two occurrences)
		Schema: ps.Schema{Msgs: []ps.Message{{Fields: []ps.Field{{Num: 1, K: ps.KMsg, Ptr: true, Msg: 1}}}, {Fields: []ps.Field{{Num: 1, K: ps.KBool, Rep: true}, {Num: 2, K: ps.KInt}}}}},
		Mode:   "template",
		Tmpl:   TMsg{Fields: []TField{{Idx: 0, Sub: &TMsg{Fields: []TField{{Idx: 1, V: num(1)}}}}}},
		Input:  []byte{0x0a, 0x00, 0x0a, 0x02, 0x08, 0x01},
	})},
}

func TestKnownFindings(t *testing.T) { evid.RunWitnesses(t, classes) }

func TestWitnessesReproduce(t *testing.T) {
	for _, c := range classes {
		if f := c.Witness(); f != nil {
			t.Logf("%s: reproduces: [%s] %s", c.Name, f.Class, f.Error())
		} else {
			t.Logf("%s: does NOT reproduce", c.Name)
		}
	}
}
