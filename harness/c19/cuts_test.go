package c19

import "testing"

// malformedCuts agrees with the definition (every prefix that does not parse).
func TestMalformedCuts(t *testing.T) {
	in := []byte{0x08, 0x81, 0x01, 0x12, 0x03, 0x61, 0x62, 0x63, 0x1d, 1, 2, 3, 4, 0x0a, 0x00, 0x80, 0x01, 0x05}
	got := map[int]bool{}
	for _, c := range malformedCuts(in, 1<<20) {
		got[c] = true
	}
	for n := 1; n < len(in); n++ {
		_, err := tokens(in[:n])
		if (err != nil) != got[n] {
			t.Fatalf("cut %d: parse error %v, listed %v", n, err, got[n])
		}
	}
}
