// C19 — proto rewriters replace exactly the templated fields.
//
// A case is (message schema, template, encoded input message). The original
// value is what the reference implementation (protobuf-go v1.26.0, dynamicpb)
// decodes from the input; the expected value is the original with every
// templated field replaced by the template's value (recursively inside
// templated sub-messages, repeated and map fields wholesale, `field |= mask`
// under BitOr). The rewriter is built with proto.ParseRewriteTemplate (with or
// without RewriterRules/BitOr) or hand-assembled as a MessageRewriter of
// FieldNumber(n).X(v) / MultiRewriter / BitOrRewriter values.
package c19

import (
	"bytes"
	"encoding/json"
	"fmt"
	"math"
	"os"
	"strconv"
	"strings"
	"testing"

	segproto "github.com/segmentio/encoding/proto"
	"google.golang.org/protobuf/encoding/protowire"
	gproto "google.golang.org/protobuf/proto"
	"google.golang.org/protobuf/types/dynamicpb"
	"pgregory.net/rapid"

	"verif/harness/evid"
	ps "verif/harness/pschema"
)

func TestMain(m *testing.M) { evid.Main(m, "C19") }

// ------------------------------------------------------------------ case

// TField is one templated field.
type TField struct {
	Idx   int     `json:"idx"`             // index of the field in its message
	V     *ps.Val `json:"v,omitempty"`     // replacement value of the field (scalar, list, map pairs, whole message in hand mode)
	Null  bool    `json:"null,omitempty"`  // template value is JSON null (scalar fields: the zero value)
	Sub   *TMsg   `json:"sub,omitempty"`   // nested template (singular message field, template modes)
	BitOr bool    `json:"bitor,omitempty"` // V is a mask or-ed into the field (singular integer fields)
	// MaskK, when set, is the Go type of the mask (the type parameter of
	// BitOr / BitOrRewriter) when it is not the Go type of the field: any
	// integer type at least as wide as the field (a narrower mask type
	// truncates the field by design and is not generated).
	MaskK ps.Kind `json:"mask_k,omitempty"`
}

// maskKind is the mask type used for a BitOr field.
func (tf *TField) maskKind(fk ps.Kind) ps.Kind {
	if tf.MaskK != "" {
		return tf.MaskK
	}
	return fk
}

// genMaskKind draws a mask type for a BitOr on a field of kind fk: the field's
// own type half of the time, else any integer type of at least its width
// (signedness may differ, e.g. uint32 on an int32 / sint32 field). In template
// mode the mask travels as a JSON number, so another type is only used when
// the mask value fits every candidate (<= MaxInt32).
func genMaskKind(rt *rapid.T, fk ps.Kind, mask uint64, template bool) ps.Kind {
	if rapid.Bool().Draw(rt, "ownmask") || template && mask > math.MaxInt32 {
		return ""
	}
	cands := []ps.Kind{ps.KInt, ps.KInt64, ps.KUint, ps.KUint64}
	if fk == ps.KInt32 || fk == ps.KUint32 {
		cands = append(cands, ps.KInt32, ps.KUint32, ps.KInt32, ps.KUint32)
	}
	k := cands[rapid.IntRange(0, len(cands)-1).Draw(rt, "maskk")]
	if k == fk {
		return ""
	}
	return k
}

// TMsg is a template over a subset of the fields of one message.
type TMsg struct {
	Fields []TField `json:"fields"`
}

// Case is the replayable unit.
type Case struct {
	Schema ps.Schema `json:"schema"`
	Mode   string    `json:"mode"` // "template" | "rules" | "hand"
	Tmpl   TMsg      `json:"tmpl"`
	Input  []byte    `json:"input,omitempty"`
	Prefix []byte    `json:"prefix,omitempty"` // non-empty out to append to

	// Stateful form: when Calls is non-empty the case is a history of Rewrite
	// calls in one process on rewriter 0 (Schema/Mode/Tmpl above) and the
	// additional rewriters More[k-1] (k >= 1), each built once. Input/Prefix
	// above are then unused.
	More  []RWSpec `json:"more,omitempty"`
	Calls []Call   `json:"calls,omitempty"`
}

// RWSpec describes an additional rewriter of a history.
type RWSpec struct {
	Schema ps.Schema `json:"schema"`
	Mode   string    `json:"mode"`
	Tmpl   TMsg      `json:"tmpl"`
}

// Call is one step of a history.
//
//	valid        Input is a valid encoding: judged by the full oracle exactly as if it were the only call
//	truncations  Rewrite is called on every prefix of Input that is malformed at the top level (at most 48,
//	             evenly spread): each call must return without panic (an error is expected, not required)
//	hostile      Input is not an encoding of the message (truncated embedded message, wrong wire type for a
//	             templated field, random bytes): one call, must return without panic
type Call struct {
	RW     int    `json:"rw"`
	Kind   string `json:"kind"`
	Input  []byte `json:"input"`
	Prefix []byte `json:"prefix,omitempty"`
}

type fail struct {
	evid.Failure
	Stage string
	Diffs []ps.Diff
	View  *Case // the single-call view (rewriter + input) the failure belongs to, for histories
}

func mk(stage, class, oracle, obs, exp string) *fail {
	return &fail{Failure: evid.Failure{Oracle: oracle, Observed: obs, Expected: exp, Class: class}, Stage: stage}
}

// ------------------------------------------------------------------ template -> JSON

func scalarJSON(k ps.Kind, v *ps.Val) string {
	switch k {
	case ps.KBool:
		if v.N != 0 {
			return "true"
		}
		return "false"
	case ps.KInt32:
		return strconv.FormatInt(int64(int32(v.N)), 10)
	case ps.KInt, ps.KInt64:
		return strconv.FormatInt(int64(v.N), 10)
	case ps.KUint32:
		return strconv.FormatUint(uint64(uint32(v.N)), 10)
	case ps.KUint, ps.KUint64:
		return strconv.FormatUint(v.N, 10)
	case ps.KFloat32:
		return strconv.FormatFloat(float64(math.Float32frombits(uint32(v.N))), 'g', -1, 32)
	case ps.KFloat64:
		return strconv.FormatFloat(math.Float64frombits(v.N), 'g', -1, 64)
	case ps.KString, ps.KBytes:
		b, _ := json.Marshal(string(v.B)) // template bytes fields are given as JSON strings (raw bytes of the string)
		return string(b)
	}
	panic("scalarJSON " + string(k))
}

// completeJSON renders a whole message value as a JSON object listing every field.
func completeJSON(s *ps.Schema, m *ps.Message, v *ps.Val) string {
	var sb strings.Builder
	sb.WriteByte('{')
	for i := range m.Fields {
		if i > 0 {
			sb.WriteByte(',')
		}
		k, _ := json.Marshal(m.TypeOfName(i))
		sb.Write(k)
		sb.WriteByte(':')
		fv := v.L[i]
		if v.Nil {
			fv = ps.Val{}
		}
		sb.WriteString(fieldJSON(s, &m.Fields[i], &fv))
	}
	sb.WriteByte('}')
	return sb.String()
}

func oneJSON(s *ps.Schema, k ps.Kind, msg int, v *ps.Val) string {
	if k == ps.KMsg {
		if v.Nil {
			z := s.ZeroMsg(&s.Msgs[msg])
			return completeJSON(s, &s.Msgs[msg], &z)
		}
		return completeJSON(s, &s.Msgs[msg], v)
	}
	return scalarJSON(k, v)
}

// fieldJSON renders the full value of a field.
func fieldJSON(s *ps.Schema, f *ps.Field, v *ps.Val) string {
	switch {
	case f.K == ps.KMap:
		var sb strings.Builder
		sb.WriteByte('{')
		for j := 0; j+1 < len(v.L); j += 2 {
			if j > 0 {
				sb.WriteByte(',')
			}
			k, _ := json.Marshal(string(v.L[j].B))
			sb.Write(k)
			sb.WriteByte(':')
			sb.WriteString(oneJSON(s, f.Val, f.Msg, &v.L[j+1]))
		}
		sb.WriteByte('}')
		return sb.String()
	case f.Rep:
		var sb strings.Builder
		sb.WriteByte('[')
		for j := range v.L {
			if j > 0 {
				sb.WriteByte(',')
			}
			sb.WriteString(oneJSON(s, f.K, f.Msg, &v.L[j]))
		}
		sb.WriteByte(']')
		return sb.String()
	}
	return oneJSON(s, f.K, f.Msg, v)
}

func templateJSON(s *ps.Schema, m *ps.Message, t *TMsg) string {
	var sb strings.Builder
	sb.WriteByte('{')
	for i := range t.Fields {
		tf := &t.Fields[i]
		f := &m.Fields[tf.Idx]
		if i > 0 {
			sb.WriteString(", ")
		}
		k, _ := json.Marshal(m.TypeOfName(tf.Idx))
		sb.Write(k)
		sb.WriteString(": ")
		switch {
		case tf.Null:
			sb.WriteString("null")
		case tf.Sub != nil:
			sb.WriteString(templateJSON(s, &s.Msgs[f.Msg], tf.Sub))
		default:
			sb.WriteString(fieldJSON(s, f, tf.V))
		}
	}
	sb.WriteByte('}')
	return sb.String()
}

// rulesOf builds the RewriterRules for the BitOr fields of the template.
func rulesOf(s *ps.Schema, m *ps.Message, t *TMsg) segproto.RewriterRules {
	r := segproto.RewriterRules{}
	for i := range t.Fields {
		tf := &t.Fields[i]
		f := &m.Fields[tf.Idx]
		name := m.TypeOfName(tf.Idx)
		switch {
		case tf.BitOr:
			switch tf.maskKind(f.K) {
			case ps.KInt:
				r[name] = segproto.BitOr[int]{}
			case ps.KInt32:
				r[name] = segproto.BitOr[int32]{}
			case ps.KInt64:
				r[name] = segproto.BitOr[int64]{}
			case ps.KUint:
				r[name] = segproto.BitOr[uint]{}
			case ps.KUint32:
				r[name] = segproto.BitOr[uint32]{}
			case ps.KUint64:
				r[name] = segproto.BitOr[uint64]{}
			}
		case tf.Sub != nil:
			if sub := rulesOf(s, &s.Msgs[f.Msg], tf.Sub); len(sub) > 0 {
				r[name] = sub
			}
		}
	}
	return r
}

// ------------------------------------------------------------------ hand-assembled rewriters

func scalarRW(n int, k ps.Kind, opt string, v *ps.Val, viaValue bool) segproto.Rewriter {
	f := segproto.FieldNumber(n)
	switch {
	case opt == "zigzag" && k == ps.KInt32:
		return f.Uint64(segproto.EncodeZigZag(int64(int32(v.N))))
	case opt == "zigzag":
		return f.Uint64(segproto.EncodeZigZag(int64(v.N)))
	case opt == "fixed" && k == ps.KUint32:
		return f.Fixed32(uint32(v.N))
	case opt == "fixed":
		return f.Fixed64(v.N)
	}
	var x any
	switch k {
	case ps.KBool:
		x = v.N != 0
	case ps.KInt:
		x = int(int64(v.N))
	case ps.KInt32:
		x = int32(v.N)
	case ps.KInt64:
		x = int64(v.N)
	case ps.KUint:
		x = uint(v.N)
	case ps.KUint32:
		x = uint32(v.N)
	case ps.KUint64:
		x = v.N
	case ps.KFloat32:
		x = math.Float32frombits(uint32(v.N))
	case ps.KFloat64:
		x = math.Float64frombits(v.N)
	case ps.KString:
		x = string(v.B)
	case ps.KBytes:
		x = append([]byte{}, v.B...)
	}
	if viaValue {
		return f.Value(x)
	}
	switch y := x.(type) {
	case bool:
		return f.Bool(y)
	case int:
		return f.Int(y)
	case int32:
		return f.Int32(y)
	case int64:
		return f.Int64(y)
	case uint:
		return f.Uint(y)
	case uint32:
		return f.Uint32(y)
	case uint64:
		return f.Uint64(y)
	case float32:
		return f.Float32(y)
	case float64:
		return f.Float64(y)
	case string:
		return f.String(y)
	case []byte:
		return f.Bytes(y)
	}
	panic("scalarRW")
}

// occurrencePayloads encodes value v of field f with the reference and returns
// the payload of each occurrence (messages and map entries).
func occurrencePayloads(b *ps.Built, mi int, idx int, v *ps.Val) ([][]byte, error) {
	m := &b.S.Msgs[mi]
	whole := b.S.ZeroMsg(m)
	whole.L[idx] = *v
	if m.Fields[idx].K == ps.KMsg && !m.Fields[idx].Rep && v.Nil {
		return nil, nil
	}
	dyn := b.Dyn(mi, &whole)
	// a by-value all-zero message is not emitted by Dyn; force an empty occurrence
	raw, err := gproto.MarshalOptions{Deterministic: true}.Marshal(dyn)
	if err != nil {
		return nil, err
	}
	nodes, err := b.S.ParseWire(m, raw)
	if err != nil {
		return nil, err
	}
	var out [][]byte
	for i := range nodes {
		if nodes[i].IsMsg {
			out = append(out, ps.Serialize(nodes[i].Sub))
		} else {
			out = append(out, nodes[i].Raw)
		}
	}
	if len(out) == 0 && m.Fields[idx].K == ps.KMsg && !m.Fields[idx].Rep {
		out = [][]byte{{}}
	}
	return out, nil
}

func bitOrRW(typ segproto.Type, n int, k ps.Kind, mask uint64) (segproto.Rewriter, error) {
	f := segproto.FieldNumber(n)
	switch k {
	case ps.KInt:
		return segproto.BitOrRewriter(typ, f, int(int64(mask)))
	case ps.KInt32:
		return segproto.BitOrRewriter(typ, f, int32(mask))
	case ps.KInt64:
		return segproto.BitOrRewriter(typ, f, int64(mask))
	case ps.KUint:
		return segproto.BitOrRewriter(typ, f, uint(mask))
	case ps.KUint32:
		return segproto.BitOrRewriter(typ, f, uint32(mask))
	case ps.KUint64:
		return segproto.BitOrRewriter(typ, f, mask)
	}
	return nil, fmt.Errorf("BitOr on %s", k)
}

// handRewriter assembles MessageRewriter{n: FieldNumber(n).X(v) | MultiRewriter(...) | BitOrRewriter}.
func handRewriter(b *ps.Built, t *TMsg) (segproto.Rewriter, error) {
	m := &b.S.Msgs[0]
	typ := segproto.TypeOf(b.Go[0])
	max := 0
	for i := range t.Fields {
		if n := m.Fields[t.Fields[i].Idx].Num; n > max {
			max = n
		}
	}
	mr := make(segproto.MessageRewriter, max+1)
	for i := range t.Fields {
		tf := &t.Fields[i]
		f := &m.Fields[tf.Idx]
		viaValue := (tf.Idx+i)%2 == 1
		switch {
		case tf.BitOr:
			rw, err := bitOrRW(typ.Field(tf.Idx).Type, f.Num, tf.maskKind(f.K), tf.V.N)
			if err != nil {
				return nil, err
			}
			mr[f.Num] = rw
		case f.K == ps.KMap || f.K == ps.KMsg:
			pl, err := occurrencePayloads(b, 0, tf.Idx, tf.V)
			if err != nil {
				return nil, err
			}
			rws := make([]segproto.Rewriter, len(pl))
			for j := range pl {
				rws[j] = segproto.FieldNumber(f.Num).Bytes(pl[j])
			}
			mr[f.Num] = segproto.MultiRewriter(rws...)
		case f.Rep:
			rws := make([]segproto.Rewriter, len(tf.V.L))
			for j := range tf.V.L {
				rws[j] = scalarRW(f.Num, f.K, f.Opt, &tf.V.L[j], viaValue)
			}
			mr[f.Num] = segproto.MultiRewriter(rws...)
		default:
			mr[f.Num] = scalarRW(f.Num, f.K, f.Opt, tf.V, viaValue)
		}
	}
	return mr, nil
}

// ------------------------------------------------------------------ value model

func orMask(k ps.Kind, cur, mask uint64) uint64 {
	switch k {
	case ps.KInt32:
		return uint64(int64(int32(cur) | int32(mask)))
	case ps.KUint32:
		return uint64(uint32(cur) | uint32(mask))
	}
	return cur | mask
}

// apply returns orig with the templated fields replaced.
func apply(s *ps.Schema, m *ps.Message, orig *ps.Val, t *TMsg) ps.Val {
	out := ps.Val{L: make([]ps.Val, len(m.Fields))}
	if orig.Nil {
		z := s.ZeroMsg(m)
		orig = &z
	}
	copy(out.L, orig.L)
	for i := range t.Fields {
		tf := &t.Fields[i]
		f := &m.Fields[tf.Idx]
		switch {
		case tf.Null:
			out.L[tf.Idx] = ps.Val{}
		case tf.BitOr:
			out.L[tf.Idx] = ps.Val{N: orMask(f.K, orig.L[tf.Idx].N, tf.V.N)}
		case tf.Sub != nil:
			out.L[tf.Idx] = apply(s, &s.Msgs[f.Msg], &orig.L[tf.Idx], tf.Sub)
		default:
			out.L[tf.Idx] = *tf.V
		}
	}
	return out
}

// ------------------------------------------------------------------ wire-level helpers

type tok struct {
	num     protowire.Number
	typ     protowire.Type
	u       uint64
	payload []byte // bytes payload
	raw     []byte // the whole field encoding
}

func tokens(b []byte) ([]tok, error) {
	var out []tok
	for len(b) > 0 {
		num, typ, n := protowire.ConsumeTag(b)
		if n < 0 {
			return nil, protowire.ParseError(n)
		}
		t := tok{num: num, typ: typ}
		m := 0
		switch typ {
		case protowire.VarintType:
			t.u, m = protowire.ConsumeVarint(b[n:])
		case protowire.Fixed32Type:
			var x uint32
			x, m = protowire.ConsumeFixed32(b[n:])
			t.u = uint64(x)
		case protowire.Fixed64Type:
			t.u, m = protowire.ConsumeFixed64(b[n:])
		case protowire.BytesType:
			t.payload, m = protowire.ConsumeBytes(b[n:])
		default:
			return nil, fmt.Errorf("field %d: wire type %d", num, typ)
		}
		if m < 0 {
			return nil, protowire.ParseError(m)
		}
		t.raw = b[:n+m]
		out = append(out, t)
		b = b[n+m:]
	}
	return out, nil
}

// carriedOver checks that the untemplated fields of in appear in out in the
// same order with the same values (byte-identical when canonical); it recurses
// into a templated sub-message that occurs exactly once on both sides.
func carriedOver(s *ps.Schema, m *ps.Message, t *TMsg, in, out []byte, canonical bool, path string) *fail {
	ti, err := tokens(in)
	if err != nil {
		return nil // the input is produced by the harness and was decoded by the reference; not reachable
	}
	to, err := tokens(out)
	if err != nil {
		return mk("carry", "output-not-wire", "output parses with protowire", path+": "+err.Error(), "a sequence of fields")
	}
	templated := map[protowire.Number]*TField{}
	if t != nil {
		for i := range t.Fields {
			templated[protowire.Number(m.Fields[t.Fields[i].Idx].Num)] = &t.Fields[i]
		}
	}
	var ui, uo []tok
	cnt := map[protowire.Number][2]int{}
	first := map[protowire.Number][2]tok{}
	for _, x := range ti {
		if _, ok := templated[x.num]; ok {
			c := cnt[x.num]
			if c[0] == 0 {
				f := first[x.num]
				f[0] = x
				first[x.num] = f
			}
			c[0]++
			cnt[x.num] = c
			continue
		}
		ui = append(ui, x)
	}
	for _, x := range to {
		if _, ok := templated[x.num]; ok {
			c := cnt[x.num]
			if c[1] == 0 {
				f := first[x.num]
				f[1] = x
				first[x.num] = f
			}
			c[1]++
			cnt[x.num] = c
			continue
		}
		uo = append(uo, x)
	}
	desc := func(ts []tok) string {
		var sb strings.Builder
		for i, x := range ts {
			if i > 0 {
				sb.WriteByte(' ')
			}
			if i > 12 {
				sb.WriteString("…")
				break
			}
			fmt.Fprintf(&sb, "%d/%d:%s", x.num, x.typ, evid.Hex(clip(x.raw, 12)))
		}
		return sb.String()
	}
	if len(ui) != len(uo) {
		return mk("carry", "untemplated-not-carried", "untemplated fields are carried over in their original order ("+path+")", desc(uo), desc(ui))
	}
	for i := range ui {
		a, c := ui[i], uo[i]
		same := a.num == c.num && a.typ == c.typ && a.u == c.u && bytes.Equal(a.payload, c.payload)
		if same && canonical && !bytes.Equal(a.raw, c.raw) {
			return mk("carry", "untemplated-bytes-differ", "untemplated fields are byte-identical for a canonically encoded input ("+path+")", desc(uo), desc(ui))
		}
		if !same {
			return mk("carry", "untemplated-not-carried", "untemplated fields are carried over in their original order with identical values ("+path+")", desc(uo), desc(ui))
		}
	}
	for n, tf := range templated {
		if tf.Sub == nil {
			continue
		}
		if c := cnt[n]; c[0] == 1 && c[1] == 1 {
			f := &m.Fields[tf.Idx]
			fs := first[n]
			if fs[0].typ != protowire.BytesType || fs[1].typ != protowire.BytesType {
				continue
			}
			if fl := carriedOver(s, &s.Msgs[f.Msg], tf.Sub, fs[0].payload, fs[1].payload, canonical, fmt.Sprintf("%s.%s", path, ps.GoName(tf.Idx))); fl != nil {
				return fl
			}
		}
	}
	return nil
}

func clip(b []byte, n int) []byte {
	if len(b) > n {
		return b[:n]
	}
	return b
}

func rewrite(rw segproto.Rewriter, out, in []byte) (res []byte, err error, pan any) {
	defer func() {
		if r := recover(); r != nil {
			pan = r
		}
	}()
	res, err = rw.Rewrite(out, in)
	return
}

func buildRewriter(b *ps.Built, c *Case, tmplJSON []byte) (rw segproto.Rewriter, err error, pan any) {
	defer func() {
		if r := recover(); r != nil {
			pan = r
		}
	}()
	switch c.Mode {
	case "hand":
		rw, err = handRewriter(b, &c.Tmpl)
	case "rules":
		rw, err = segproto.ParseRewriteTemplate(segproto.TypeOf(b.Go[0]), tmplJSON, rulesOf(&c.Schema, &c.Schema.Msgs[0], &c.Tmpl))
	default:
		rw, err = segproto.ParseRewriteTemplate(segproto.TypeOf(b.Go[0]), tmplJSON)
	}
	return
}

// result of the oracle besides a failure: facts for the labels
type facts struct {
	parseErr   bool
	canonical  bool
	tmplJSON   string
	inputValid bool
}

// prepared is a rewriter built once from a (Schema, Mode, Tmpl) description.
type prepared struct {
	b        *ps.Built
	rw       segproto.Rewriter
	tmplJSON []byte
	tmplCopy []byte
}

// prepare builds the rewriter of the single-call view c. It returns (nil, nil)
// when ParseRewriteTemplate reports an error (never a violation by itself).
func prepare(c *Case, fx *facts) (*prepared, *fail) {
	b, err := ps.Build(&c.Schema)
	if err != nil {
		return nil, mk("harness", "harness", "harness: schema builds", err.Error(), "")
	}
	m0 := &c.Schema.Msgs[0]
	tmplJSON := []byte(templateJSON(&c.Schema, m0, &c.Tmpl))
	fx.tmplJSON = string(tmplJSON)
	p := &prepared{b: b, tmplJSON: tmplJSON, tmplCopy: append([]byte(nil), tmplJSON...)}
	rw, err, pan := buildRewriter(b, c, tmplJSON)
	if pan != nil {
		return nil, mk("build", "panic", "building the rewriter does not panic", fmt.Sprintf("panic: %v (template %s)", pan, clip(tmplJSON, 300)), "a Rewriter or an error")
	}
	if err != nil {
		fx.parseErr = true
		return nil, nil
	}
	if rw == nil {
		return nil, mk("build", "nil-rewriter", "ParseRewriteTemplate returns a Rewriter or an error", "nil, nil", "non-nil Rewriter")
	}
	p.rw = rw
	return p, nil
}

// check is the oracle: pure function of the case and the library.
func check(c *Case, fx *facts) *fail {
	if len(c.Calls) > 0 {
		return checkHistory(c, fx)
	}
	p, fl := prepare(c, fx)
	if fl != nil || p == nil {
		return fl
	}
	return p.callValid(c, fx)
}

// callValid judges one Rewrite call on the valid input c.Input (appending to
// c.Prefix as well when that is non-empty) with the already built rewriter.
func (p *prepared) callValid(c *Case, fx *facts) *fail {
	b, rw, tmplJSON, tmplCopy := p.b, p.rw, p.tmplJSON, p.tmplCopy
	m0 := &c.Schema.Msgs[0]
	// original value = what the reference decodes from the input
	dyn := dynamicpb.NewMessage(b.Desc[0])
	if err := gproto.Unmarshal(c.Input, dyn); err != nil {
		return mk("harness", "harness", "harness: input is a valid encoding for the reference", err.Error(), "")
	}
	fx.inputValid = true
	orig := b.FromDyn(0, dyn)
	tree, err := c.Schema.ParseWire(m0, c.Input)
	if err != nil {
		return mk("harness", "harness", "harness: input parses", err.Error(), "")
	}
	fx.canonical = ps.Canonical(tree)
	expected := apply(&c.Schema, m0, &orig, &c.Tmpl)

	in := append([]byte(nil), c.Input...)
	out1, err, pan := rewrite(rw, nil, in)
	if pan != nil {
		return mk("rewrite", "panic", "Rewrite does not panic on a valid message", fmt.Sprintf("panic: %v (template %s, input %s)", pan, clip(tmplJSON, 300), evid.Hex(clip(in, 64))), "rewritten message")
	}
	if err != nil {
		return mk("rewrite", "rewrite-error", "Rewrite succeeds on a valid encoded message", fmt.Sprintf("error %v (template %s, input %s)", err, clip(tmplJSON, 300), evid.Hex(clip(in, 64))), "nil error")
	}
	if !bytes.Equal(in, c.Input) {
		return mk("rewrite", "input-modified", "the input message is not modified", evid.Hex(clip(in, 64)), evid.Hex(clip(c.Input, 64)))
	}
	if c.Mode != "hand" && !bytes.Equal(tmplJSON, tmplCopy) {
		return mk("rewrite", "template-modified", "the template is not modified", string(clip(tmplJSON, 200)), string(clip(tmplCopy, 200)))
	}
	if fl := checkOutput(b, c, &expected, out1, fx.canonical, "out=nil"); fl != nil {
		return fl
	}
	// appending to a non-empty out (with spare capacity holding a canary)
	if len(c.Prefix) > 0 {
		buf := make([]byte, len(c.Prefix), len(c.Prefix)+len(out1)/2+3)
		copy(buf, c.Prefix)
		spare := buf[len(buf):cap(buf)]
		for i := range spare {
			spare[i] = 0xA5
		}
		out2, err, pan := rewrite(rw, buf, in)
		if pan != nil {
			return mk("rewrite", "panic", "Rewrite does not panic when appending to a non-empty out", fmt.Sprintf("panic: %v", pan), "rewritten message")
		}
		if err != nil {
			return mk("rewrite", "rewrite-error", "Rewrite succeeds when appending to a non-empty out", err.Error(), "nil error")
		}
		if len(out2) < len(c.Prefix) || !bytes.Equal(out2[:len(c.Prefix)], c.Prefix) {
			return mk("rewrite", "prefix-clobbered", "appending to a non-empty out keeps the prefix", evid.Hex(clip(out2, 48)), "prefix "+evid.Hex(clip(c.Prefix, 48)))
		}
		if !bytes.Equal(in, c.Input) {
			return mk("rewrite", "input-modified", "the input message is not modified", evid.Hex(clip(in, 64)), evid.Hex(clip(c.Input, 64)))
		}
		if fl := checkOutput(b, c, &expected, out2[len(c.Prefix):], fx.canonical, "out=prefix"); fl != nil {
			return fl
		}
	}
	return nil
}

// malformedCuts lists the prefixes lengths of in that are malformed at the top
// level according to the wire model (at most max of them, evenly spread).
func malformedCuts(in []byte, max int) []int {
	// a prefix of a well-formed message is well-formed at the top level exactly
	// when it ends on a field boundary
	boundary := map[int]bool{}
	if ts, err := tokens(in); err == nil {
		off := 0
		for _, t := range ts {
			off += len(t.raw)
			boundary[off] = true
		}
	}
	var cuts []int
	for n := 1; n < len(in); n++ {
		if !boundary[n] {
			cuts = append(cuts, n)
		}
	}
	if len(cuts) > max {
		out := make([]int, 0, max)
		for i := 0; i < max; i++ {
			out = append(out, cuts[i*len(cuts)/max])
		}
		cuts = out
	}
	return cuts
}

// view returns the single-call view of rewriter k of a history.
func (c *Case) view(k int) Case {
	if k == 0 {
		return Case{Schema: c.Schema, Mode: c.Mode, Tmpl: c.Tmpl}
	}
	r := c.More[k-1]
	return Case{Schema: r.Schema, Mode: r.Mode, Tmpl: r.Tmpl}
}

// checkHistory runs the calls of a stateful case in order on rewriters that
// are built once. Every valid call is judged by callValid exactly as if it
// were the only call; the other calls must return without panic.
func checkHistory(c *Case, fx *facts) *fail {
	n := 1 + len(c.More)
	views := make([]Case, n)
	preps := make([]*prepared, n)
	for k := 0; k < n; k++ {
		views[k] = c.view(k)
		p, fl := prepare(&views[k], fx)
		if fl != nil {
			return fl
		}
		if p == nil {
			return nil // ParseRewriteTemplate error: not a violation, nothing to run
		}
		preps[k] = p
	}
	for i := range c.Calls {
		call := &c.Calls[i]
		if call.RW < 0 || call.RW >= n {
			return mk("harness", "harness", "harness: call refers to a rewriter of the history", fmt.Sprint(call.RW), "")
		}
		p := preps[call.RW]
		where := fmt.Sprintf("call %d of %d (%s, rewriter %d)", i+1, len(c.Calls), call.Kind, call.RW)
		switch call.Kind {
		case "valid":
			v := views[call.RW]
			v.Input, v.Prefix = call.Input, call.Prefix
			if fl := p.callValid(&v, fx); fl != nil {
				fl.Oracle += " [" + where + " of a history: judged as if it were the only call]"
				fl.View = &v
				return fl
			}
		case "truncations":
			for _, cut := range malformedCuts(call.Input, 48) {
				in := append([]byte(nil), call.Input[:cut]...)
				if _, _, pan := rewrite(p.rw, nil, in); pan != nil {
					return mk("rewrite", "panic", "Rewrite does not panic on a truncated message ["+where+"]", fmt.Sprintf("panic: %v (input %s)", pan, evid.Hex(clip(in, 64))), "an error")
				}
			}
		default: // hostile
			in := append([]byte(nil), call.Input...)
			if _, _, pan := rewrite(p.rw, append([]byte(nil), call.Prefix...), in); pan != nil {
				return mk("rewrite", "panic", "Rewrite does not panic on a malformed message ["+where+"]", fmt.Sprintf("panic: %v (input %s)", pan, evid.Hex(clip(in, 64))), "a result or an error")
			}
		}
	}
	return nil
}

func checkOutput(b *ps.Built, c *Case, expected *ps.Val, out []byte, canonical bool, how string) *fail {
	if _, err := tokens(out); err != nil {
		return mk("output", "output-not-wire", "output parses with protowire ("+how+")", err.Error()+" in "+evid.Hex(clip(out, 64)), "a sequence of fields")
	}
	dyn := dynamicpb.NewMessage(b.Desc[0])
	if err := gproto.Unmarshal(out, dyn); err != nil {
		return mk("output", "output-invalid", "the reference decodes the rewritten message ("+how+")", fmt.Sprintf("%v: %s", err, evid.Hex(clip(out, 64))), "valid encoded message")
	}
	got := b.FromDyn(0, dyn)
	if ds := b.Compare(0, expected, &got); len(ds) > 0 {
		fl := mk("output", "value-mismatch", "rewritten message decodes to the original with exactly the templated fields replaced (expected vs decoded, "+how+")",
			ps.DiffsString(ds)+" | template "+string(clip([]byte(templateJSON(&c.Schema, &c.Schema.Msgs[0], &c.Tmpl)), 300))+" | input "+evid.Hex(clip(c.Input, 64))+" | output "+evid.Hex(clip(out, 64)), "equal field by field")
		fl.Diffs = ds
		return fl
	}
	return carriedOver(&c.Schema, &c.Schema.Msgs[0], &c.Tmpl, c.Input, out, canonical, "M0")
}

func checkCase(c Case) *evid.Failure {
	var fx facts
	if f := check(&c, &fx); f != nil {
		v := &c
		if f.View != nil {
			v = f.View
		}
		if cls := knownClass(v, f); cls != "" && evid.KnownActive(cls) {
			return nil
		}
		return &f.Failure
	}
	return nil
}

// ------------------------------------------------------------------ generation

const maxTemplatedNum = 100000 // MessageRewriter is a slice indexed by field number (16 B per slot)

var c19Mid = []int{255, 256, 257, 300, 317, 318, 319, 383, 2047, 2048, 65535}
var c19Big = []int{65536, 65599, 70000, 70014, 1<<29 - 1}

// hasFixed: message (recursively) has a fixed32/fixed64-tagged integer field,
// which proto.TypeOf cannot express (it reports uint32/uint64).
func hasFixed(s *ps.Schema, mi int) bool {
	for _, f := range s.Msgs[mi].Fields {
		if f.Opt == "fixed" {
			return true
		}
		if (f.K == ps.KMsg || (f.K == ps.KMap && f.Val == ps.KMsg)) && hasFixed(s, f.Msg) {
			return true
		}
	}
	return false
}

// completePanicky: a complete-object template of message mi (every field
// listed, recursively) contains a level whose highest number overruns the
// seen-set; completeTooBig: a number whose MessageRewriter slice would be huge.
func completePanicky(s *ps.Schema, mi int) bool {
	max := 0
	for _, f := range s.Msgs[mi].Fields {
		if f.Num > max {
			max = f.Num
		}
		if (f.K == ps.KMsg || (f.K == ps.KMap && f.Val == ps.KMsg)) && completePanicky(s, f.Msg) {
			return true
		}
	}
	return fieldsetPanics(max)
}

func completeTooBig(s *ps.Schema, mi int) bool {
	for _, f := range s.Msgs[mi].Fields {
		if f.Num > maxTemplatedNum {
			return true
		}
		if (f.K == ps.KMsg || (f.K == ps.KMap && f.Val == ps.KMsg)) && completeTooBig(s, f.Msg) {
			return true
		}
	}
	return false
}

// fieldsetPanics is the predicate of the known class: MessageRewriter whose
// highest rule number M satisfies M >= 256 and M%64 < 61 indexes its seen-set
// out of range.
func fieldsetPanics(max int) bool { return max >= 256 && max%64 < 61 }

type genStats struct {
	nested, scalar, zero, null, rep, mp, bitor, bitorSint, wholeMsg int
	avoidedFieldset, avoidedBitOrSint                               int
	bitorOtherMask                                                  int
	maxNum                                                          int
}

var tmplVal = ps.ValOpts{ASCII: true, NoNaN: true, MaxRep: 4, LongRep: 12}

// genTemplate draws a template over message mi (template modes).
func genTemplate(rt *rapid.T, s *ps.Schema, mi int, rules bool, depth int, st *genStats) TMsg {
	m := &s.Msgs[mi]
	var t TMsg
	avoid := evid.KnownActive(clsFieldset)
	for i := range m.Fields {
		f := &m.Fields[i]
		if rapid.IntRange(0, 9).Draw(rt, "templated?") >= 6 {
			continue
		}
		if f.Num > maxTemplatedNum || f.Opt == "fixed" {
			continue
		}
		tf := TField{Idx: i}
		switch {
		case f.K == ps.KMap:
			if f.Key != ps.KString || (f.Val == ps.KMsg && (hasFixed(s, f.Msg) || completeTooBig(s, f.Msg))) {
				continue
			}
			if f.Val == ps.KMsg && avoid && completePanicky(s, f.Msg) {
				st.avoidedFieldset++
				continue
			}
			o := tmplVal
			o.NonZero, o.Complete = true, true // non-empty keys, non-zero values, complete objects
			v := ps.GenFieldVal(rt, s, f, &o, depth)
			if anyZeroElem(s, f, &v) {
				continue
			}
			tf.V = &v
			st.mp++
		case f.Rep:
			if f.K == ps.KMsg && (hasFixed(s, f.Msg) || completeTooBig(s, f.Msg)) {
				continue
			}
			if f.K == ps.KMsg && avoid && completePanicky(s, f.Msg) {
				st.avoidedFieldset++
				continue
			}
			o := tmplVal
			o.NonZero, o.Complete = true, true // zero elements have no template representation
			v := ps.GenFieldVal(rt, s, f, &o, depth)
			if rapid.IntRange(0, 9).Draw(rt, "emptylist") == 0 {
				v = ps.Val{L: []ps.Val{}}
			}
			if anyZeroElem(s, f, &v) {
				continue
			}
			tf.V = &v
			st.rep++
		case f.K == ps.KMsg:
			if depth >= 3 {
				continue
			}
			sub := genTemplate(rt, s, f.Msg, rules, depth+1, st)
			tf.Sub = &sub
			st.nested++
		default:
			if rules && ps.IsIntKind(f.K) && rapid.Bool().Draw(rt, "bitor?") {
				if f.Opt == "zigzag" && evid.KnownActive(clsBitOrSint) {
					st.avoidedBitOrSint++
					continue
				}
				o := tmplVal
				v := ps.GenFieldVal(rt, s, f, &o, depth)
				tf.V, tf.BitOr = &v, true
				tf.MaskK = genMaskKind(rt, f.K, v.N, true)
				st.bitor++
				if tf.MaskK != "" {
					st.bitorOtherMask++
				}
				if f.Opt == "zigzag" {
					st.bitorSint++
				}
				break
			}
			switch rapid.IntRange(0, 9).Draw(rt, "scalarform") {
			case 0:
				tf.Null = true
				st.null++
			case 1:
				v := ps.Val{}
				if f.K == ps.KString || f.K == ps.KBytes {
					v.B = []byte{}
				}
				tf.V = &v
				st.zero++
			default:
				o := tmplVal
				o.NonZero = true
				v := ps.GenFieldVal(rt, s, f, &o, depth)
				tf.V = &v
				st.scalar++
			}
		}
		t.Fields = append(t.Fields, tf)
	}
	// known class: avoid rule sets whose highest number makes the seen-set too small
	if avoid {
		for len(t.Fields) > 0 {
			max, at := 0, -1
			for i := range t.Fields {
				if n := m.Fields[t.Fields[i].Idx].Num; n > max {
					max, at = n, i
				}
			}
			if !fieldsetPanics(max) {
				break
			}
			t.Fields = append(t.Fields[:at], t.Fields[at+1:]...)
			st.avoidedFieldset++
		}
	}
	for i := range t.Fields {
		if n := m.Fields[t.Fields[i].Idx].Num; n > st.maxNum {
			st.maxNum = n
		}
	}
	return t
}

// anyZeroElem: a repeated-message / map-of-message template value has, at any
// depth, an all-zero element — which the template syntax cannot express (a
// zero template value means "field cleared", so the element would vanish).
func anyZeroElem(s *ps.Schema, f *ps.Field, v *ps.Val) bool {
	if f.K != ps.KMsg && !(f.K == ps.KMap && f.Val == ps.KMsg) {
		return false
	}
	switch {
	case f.K == ps.KMap:
		for j := 1; j < len(v.L); j += 2 {
			if s.IsZero(&s.Msgs[f.Msg], &v.L[j]) || zeroElemInside(s, &s.Msgs[f.Msg], &v.L[j]) {
				return true
			}
		}
	case f.Rep:
		for j := range v.L {
			if s.IsZero(&s.Msgs[f.Msg], &v.L[j]) || zeroElemInside(s, &s.Msgs[f.Msg], &v.L[j]) {
				return true
			}
		}
	default:
		return zeroElemInside(s, &s.Msgs[f.Msg], v)
	}
	return false
}

func zeroElemInside(s *ps.Schema, m *ps.Message, v *ps.Val) bool {
	if v.Nil {
		return false
	}
	for i := range m.Fields {
		if anyZeroElem(s, &m.Fields[i], &v.L[i]) {
			return true
		}
	}
	return false
}

// genHand draws a flat rule set for the hand-assembled MessageRewriter.
func genHand(rt *rapid.T, s *ps.Schema, st *genStats) TMsg {
	m := &s.Msgs[0]
	var t TMsg
	for i := range m.Fields {
		f := &m.Fields[i]
		if rapid.IntRange(0, 9).Draw(rt, "templated?") >= 5 || f.Num > maxTemplatedNum {
			continue
		}
		tf := TField{Idx: i}
		o := ps.ValOpts{MaxRep: 4, LongRep: 12}
		if ps.IsIntKind(f.K) && !f.Rep && f.Opt != "fixed" && rapid.IntRange(0, 3).Draw(rt, "bitor?") == 0 {
			if f.Opt == "zigzag" && evid.KnownActive(clsBitOrSint) {
				st.avoidedBitOrSint++
				continue
			}
			v := ps.GenFieldVal(rt, s, f, &o, 0)
			tf.V, tf.BitOr = &v, true
			tf.MaskK = genMaskKind(rt, f.K, v.N, false)
			st.bitor++
			if tf.MaskK != "" {
				st.bitorOtherMask++
			}
			if f.Opt == "zigzag" {
				st.bitorSint++
			}
		} else {
			v := ps.GenFieldVal(rt, s, f, &o, 0)
			tf.V = &v
			switch {
			case f.K == ps.KMap:
				st.mp++
			case f.Rep:
				st.rep++
			case f.K == ps.KMsg:
				st.wholeMsg++
			default:
				st.scalar++
			}
		}
		t.Fields = append(t.Fields, tf)
	}
	if evid.KnownActive(clsFieldset) {
		for len(t.Fields) > 0 {
			max, at := 0, -1
			for i := range t.Fields {
				if n := m.Fields[t.Fields[i].Idx].Num; n > max {
					max, at = n, i
				}
			}
			if !fieldsetPanics(max) {
				break
			}
			t.Fields = append(t.Fields[:at], t.Fields[at+1:]...)
			st.avoidedFieldset++
		}
	}
	for i := range t.Fields {
		if n := m.Fields[t.Fields[i].Idx].Num; n > st.maxNum {
			st.maxNum = n
		}
	}
	return t
}

// mergeRuled undoes, for fields that carry a nested template or a BitOr rule,
// the "present repeatedly" variants (known class): the occurrences of a
// nested-template message are merged into the first one (concatenation is
// protobuf's merge), of a BitOr field only the last (effective) one is kept.
func mergeRuled(s *ps.Schema, m *ps.Message, t *TMsg, nodes []ps.WNode, n *int) []ps.WNode {
	for i := range t.Fields {
		tf := &t.Fields[i]
		if tf.Sub == nil && !tf.BitOr {
			continue
		}
		f := &m.Fields[tf.Idx]
		var idx []int
		for j := range nodes {
			if nodes[j].Num == f.Num {
				idx = append(idx, j)
			}
		}
		if len(idx) > 1 {
			*n++
			var out []ps.WNode
			if tf.BitOr {
				last := idx[len(idx)-1]
				for j := range nodes {
					if nodes[j].Num != f.Num || j == last {
						out = append(out, nodes[j])
					}
				}
			} else {
				merged := nodes[idx[0]]
				merged.Sub = nil
				for _, j := range idx {
					merged.Sub = append(merged.Sub, nodes[j].Sub...)
				}
				for j := range nodes {
					switch {
					case j == idx[0]:
						out = append(out, merged)
					case nodes[j].Num != f.Num:
						out = append(out, nodes[j])
					}
				}
			}
			nodes = out
		}
		if tf.Sub != nil {
			for j := range nodes {
				if nodes[j].Num == f.Num && nodes[j].IsMsg {
					nodes[j].Sub = mergeRuled(s, &s.Msgs[f.Msg], tf.Sub, nodes[j].Sub, n)
				}
			}
		}
	}
	return nodes
}

func numLabel(n int) string {
	switch {
	case n == 0:
		return "none"
	case n <= 15:
		return "<=15"
	case n <= 255:
		return "16..255"
	case n <= 2047:
		return "256..2047"
	case n <= 65535:
		return "2048..65535"
	}
	return ">65535"
}

// pair is one (rewriter description, valid input) pair with the facts the
// label histogram needs.
type pair struct {
	c       Case
	gs      genStats
	tx      ps.TxStats
	variant int
	tree    []ps.WNode
}

// genPair draws a rewriter over message 0 of s and a valid encoded input.
func genPair(rt *rapid.T, s *ps.Schema, b *ps.Built) pair {
	m0 := &s.Msgs[0]
	c := Case{Schema: *s}
	var gs genStats
	switch rapid.IntRange(0, 9).Draw(rt, "mode") {
	case 0, 1, 2, 3:
		c.Mode = "template"
		c.Tmpl = genTemplate(rt, s, 0, false, 0, &gs)
	case 4, 5, 6:
		c.Mode = "rules"
		c.Tmpl = genTemplate(rt, s, 0, true, 0, &gs)
	default:
		c.Mode = "hand"
		c.Tmpl = genHand(rt, s, &gs)
	}
	for i := 0; i < gs.avoidedFieldset; i++ {
		evid.Excluded(clsFieldset)
	}
	for i := 0; i < gs.avoidedBitOrSint; i++ {
		evid.Excluded(clsBitOrSint)
	}
	// input: reference encoding of a value, then protowire-level variants
	v := ps.GenMsgVal(rt, s, 0, ps.ValOpts{MaxRep: 4, LongRep: 14})
	ref, err := gproto.MarshalOptions{Deterministic: true}.Marshal(b.Dyn(0, &v))
	if err != nil {
		rt.Fatalf("harness: reference marshal: %v", err)
	}
	tree, err := s.ParseWire(m0, ref)
	if err != nil {
		rt.Fatalf("harness: %v", err)
	}
	var tx ps.TxStats
	variant := rapid.IntRange(0, 9).Draw(rt, "variant")
	switch {
	case variant < 3: // canonical reference bytes
	case variant < 5: // canonical, unknown fields interleaved, permuted, duplicated occurrences
		tree = ps.Transform(rt, s, m0, tree, ps.TxSel{Unknown: true, Perm: rapid.Bool().Draw(rt, "perm"), Override: rapid.Bool().Draw(rt, "dup"), Split: rapid.IntRange(0, 3).Draw(rt, "split") == 0}, &tx)
	default:
		tree = ps.Transform(rt, s, m0, tree, ps.TxSel{Unknown: rapid.Bool().Draw(rt, "unk"), Perm: rapid.Bool().Draw(rt, "perm"), Override: rapid.Bool().Draw(rt, "dup"),
			Split: rapid.IntRange(0, 3).Draw(rt, "split") == 0, Nonmin: rapid.Bool().Draw(rt, "nonmin")}, &tx)
	}
	if evid.KnownActive(clsFirstOcc) {
		n := 0
		tree = mergeRuled(s, m0, &c.Tmpl, tree, &n)
		for i := 0; i < n; i++ {
			evid.Excluded(clsFirstOcc)
		}
	}
	c.Input = ps.Serialize(tree)
	if rapid.IntRange(0, 2).Draw(rt, "prefix?") == 0 {
		c.Prefix = rapid.SliceOfN(rapid.Byte(), 1, 20).Draw(rt, "prefix")
	}

	return pair{c: c, gs: gs, tx: tx, variant: variant, tree: tree}
}

// genHostile derives from the valid input of p an input that is NOT an
// encoding of the message (only "no panic" is required of Rewrite on it).
func genHostile(rt *rapid.T, p *pair) ([]byte, string) {
	m0 := &p.c.Schema.Msgs[0]
	templated := map[int]bool{}
	for i := range p.c.Tmpl.Fields {
		templated[m0.Fields[p.c.Tmpl.Fields[i].Idx].Num] = true
	}
	tree := ps.CloneNodes(p.tree)
	switch rapid.IntRange(0, 3).Draw(rt, "hostile-kind") {
	case 0: // an embedded message cut short inside a well-formed outer message
		for i := range tree {
			if tree[i].IsMsg {
				if pl := ps.Serialize(tree[i].Sub); len(pl) >= 2 {
					tree[i].IsMsg, tree[i].Sub = false, nil
					tree[i].Raw = pl[:rapid.IntRange(1, len(pl)-1).Draw(rt, "inner-cut")]
					return ps.Serialize(tree), "embedded-message-truncated"
				}
			}
		}
	case 1: // a templated field with another wire type
		for i := range tree {
			if templated[tree[i].Num] {
				nd := ps.WNode{Num: tree[i].Num}
				if tree[i].Typ == protowire.VarintType {
					nd.Typ = rapid.SampledFrom([]protowire.Type{protowire.BytesType, protowire.Fixed32Type, protowire.Fixed64Type}).Draw(rt, "wrong-type")
					nd.Raw = rapid.SliceOfN(rapid.Byte(), 0, 6).Draw(rt, "wrong-payload")
					nd.U = uint64(rapid.Uint32().Draw(rt, "wrong-fixed"))
				} else {
					nd.Typ = protowire.VarintType
					nd.U = rapid.Uint64().Draw(rt, "wrong-varint")
				}
				tree[i] = nd
				return ps.Serialize(tree), "templated-field-wrong-wire-type"
			}
		}
	case 2: // a single malformed prefix
		if cuts := malformedCuts(p.c.Input, 1<<20); len(cuts) > 0 {
			return p.c.Input[:rapid.SampledFrom(cuts).Draw(rt, "cut")], "one-malformed-prefix"
		}
	}
	return rapid.SliceOfN(rapid.Byte(), 1, 24).Draw(rt, "random-bytes"), "random-bytes"
}

func TestRewrite(t *testing.T) {
	evid.Check(t, "Rewrite", 4500, func(rt *rapid.T) {
		s, _ := ps.GenSchema(rt, ps.GenOpts{StringKey: true, Unexp: true, MidNums: c19Mid, BigNums: c19Big})
		b, err := ps.Build(&s)
		if err != nil {
			rt.Fatalf("harness: %v", err)
		}
		m0 := &s.Msgs[0]
		// several (template, input) pairs per schema: building the Go type, the
		// descriptor and the library's type caches dominates the cost
		plo, phi := 1, 3
		if evid.Thorough() {
			plo, phi = 4, 10
		}
		for rep := rapid.IntRange(plo, phi).Draw(rt, "pairs"); rep > 0; rep-- {
			pr := genPair(rt, &s, b)
			c, gs, tx, variant, tree := pr.c, pr.gs, pr.tx, pr.variant, pr.tree
			// ---- bookkeeping
			evid.Eval(1)
			present := map[int]bool{}
			for i := range tree {
				present[tree[i].Num] = true
			}
			touched, untouched, absentT := 0, 0, 0
			templatedNums := map[int]bool{}
			for i := range c.Tmpl.Fields {
				n := m0.Fields[c.Tmpl.Fields[i].Idx].Num
				templatedNums[n] = true
				if present[n] {
					touched++
				} else {
					absentT++
				}
			}
			for n := range present {
				if !templatedNums[n] {
					untouched++
				}
			}
			evid.Label("mode." + c.Mode)
			for i := range s.Msgs {
				if len(s.Msgs[i].Pad) != 0 {
					if s.Msgs[i].Tagged {
						evid.Label("type.unexported-fields(tagged message)")
					} else {
						evid.Label("type.unexported-fields(untagged message)")
					}
					break
				}
			}
			lab := func(cond bool, name string) {
				if cond {
					evid.Label(name)
				}
			}
			lab(len(c.Tmpl.Fields) == 0, "tmpl.empty")
			lab(gs.scalar > 0, "tmpl.scalar-nonzero")
			lab(gs.zero > 0, "tmpl.scalar-zero")
			lab(gs.null > 0, "tmpl.scalar-null")
			lab(gs.nested > 0, "tmpl.nested-message")
			lab(gs.rep > 0, "tmpl.repeated")
			lab(gs.mp > 0, "tmpl.map")
			lab(gs.bitor > 0, "tmpl.bitor")
			lab(gs.bitorSint > 0, "tmpl.bitor-on-sint")
			lab(gs.bitorOtherMask > 0, "tmpl.bitor-mask-type-differs")
			lab(gs.wholeMsg > 0, "tmpl.whole-message(hand)")
			evid.Label("tmpl.maxnum" + numLabel(gs.maxNum))
			lab(touched > 0, "input.templated-field-present")
			lab(absentT > 0, "input.templated-field-absent")
			lab(untouched > 0, "input.untemplated-field-present")
			lab(variant < 3, "input.reference-bytes")
			lab(tx.Unknown > 0, "input.unknown-interleaved")
			lab(tx.Perm > 0, "input.permuted")
			lab(tx.Override+tx.OverrideZero > 0, "input.scalar-present-repeatedly")
			lab(tx.Split > 0, "input.message-split")
			lab(tx.Nonmin > 0, "input.non-canonical")
			lab(len(c.Prefix) > 0, "out.non-empty-prefix")
			if touched > 0 && untouched > 0 {
				cj, _ := json.Marshal(c)
				evid.NonTrivial(evid.Hash(cj))
				evid.Label("nontrivial")
			}
			evid.Sample(c)

			// ---- stateful form: a history of calls around this pair
			if rapid.IntRange(0, 9).Draw(rt, "history?") < 6 {
				pairs := []pair{pr}
				switch rapid.IntRange(0, 5).Draw(rt, "second-rewriter") {
				case 0: // another rewriter of the same message type
					pairs = append(pairs, genPair(rt, &s, b))
					evid.Label("history.two-rewriters.same-type")
				case 1: // a rewriter of another message type (small field numbers overlap)
					s2, _ := ps.GenSchema(rt, ps.GenOpts{StringKey: true, Unexp: true, MaxMsgs: 2, MaxFields: 5, NumCap: 2047})
					b2, err := ps.Build(&s2)
					if err != nil {
						rt.Fatalf("harness: %v", err)
					}
					pairs = append(pairs, genPair(rt, &s2, b2))
					evid.Label("history.two-rewriters.different-type")
				}
				for _, p := range pairs[1:] {
					c.More = append(c.More, RWSpec{Schema: p.c.Schema, Mode: p.c.Mode, Tmpl: p.c.Tmpl})
				}
				ncalls := rapid.IntRange(2, 6).Draw(rt, "ncalls")
				badSeen, validAfterBad, repeats := false, false, false
				used := map[string]bool{}
				for j := 0; j < ncalls; j++ {
					k := rapid.IntRange(0, len(pairs)-1).Draw(rt, "call-rw")
					p := &pairs[k]
					kind := rapid.IntRange(0, 9).Draw(rt, "call-kind")
					if j == ncalls-1 {
						kind = 0 // histories end with a valid call
					}
					call := Call{RW: k}
					switch {
					case kind < 5:
						call.Kind, call.Input = "valid", p.c.Input
						if rapid.IntRange(0, 3).Draw(rt, "call-prefix?") == 0 {
							call.Prefix = rapid.SliceOfN(rapid.Byte(), 1, 12).Draw(rt, "call-prefix")
						}
						key := fmt.Sprint(k)
						repeats = repeats || used[key]
						used[key] = true
						validAfterBad = validAfterBad || badSeen
					case kind < 8 && len(malformedCuts(p.c.Input, 1)) > 0:
						call.Kind, call.Input = "truncations", p.c.Input
						badSeen = true
						evid.Label("history.call.truncations(every malformed prefix)")
					default:
						call.Kind = "hostile"
						var what string
						call.Input, what = genHostile(rt, p)
						badSeen = true
						evid.Label("history.call.hostile." + what)
					}
					c.Calls = append(c.Calls, call)
				}
				c.Input, c.Prefix = nil, nil
				evid.Eval(len(c.Calls) - 1) // one evaluation was counted for the pair itself
				evid.Label(fmt.Sprintf("history.calls=%d", len(c.Calls)))
				lab(validAfterBad, "history.valid-call-after-failing-call")
				lab(repeats, "history.same-valid-call-repeated")
				if validAfterBad {
					cj, _ := json.Marshal(c)
					evid.NonTrivial(evid.Hash(cj))
				}
			} else {
				evid.Label("history.none(single call)")
			}

			var fx facts
			f := check(&c, &fx)
			lab(fx.parseErr, "ParseRewriteTemplate-error(not a violation)")
			if f != nil {
				if f.Stage == "harness" {
					rt.Fatalf("harness: %s", f.Error())
				}
				kc := &c
				if f.View != nil {
					kc = f.View
				}
				if cls := knownClass(kc, f); cls != "" && evid.KnownActive(cls) {
					evid.Excluded(cls)
					continue
				}
				evid.Violation(rt, "Rewrite", c, &f.Failure)
			}
		}
	})
}

// ------------------------------------------------------------------ replay

func TestReplay(t *testing.T) {
	files := evid.SavedReplays()
	if p := evid.ReplayFile(); p != "" {
		files = []string{p}
	}
	for _, p := range files {
		_, raw, err := evid.LoadReplayCase(p)
		if err != nil {
			t.Fatalf("replay %s: %v", p, err)
		}
		var c Case
		if err := json.Unmarshal(raw, &c); err != nil || len(c.Schema.Msgs) == 0 {
			fmt.Fprintf(os.Stderr, "replay %s: not a C19 case, skipped\n", p)
			continue
		}
		evid.Eval(1)
		if f := checkCase(c); f != nil {
			evid.Violation(t, "Replay", c, f)
		}
	}
}
